//! TBMC: symbolic interleavings of the ticket protocol of `ConIterOfIter` by trace-guess-and-validate
//! (DESIGN.md §2 TBMC). Kani cannot run threads, so the *schedule is a solver variable*:
//!
//! 1. guess: per thread an array of events `(ts, loc, kind, operand, before, after)`, all `kani::any()`;
//! 2. validate (pure harness code, before any crate code runs): timestamps are a total order that is
//!    increasing per thread, every event's `after` follows from `before` by its kind, and `before` is the
//!    `after` of the latest earlier event on the same location (sequential consistency of the trace);
//! 3. run the real operations thread after thread; the hook makes the j-th atomic access of thread t
//!    *be* event (t, j): kind/operand/location must match (assumed), the memory ordering used by the
//!    call site is recorded, and the guessed `before` is what the access reads. The wrapped probe
//!    iterator's `next` is an event on location ITER;
//! 4. the last thread may run on *solo* after the trace (all other threads have finished): its accesses
//!    are then served from the final memory of the trace with real semantics; a thread that keeps
//!    re-reading there without returning hangs (C09);
//! 5. assert on the recorded results and on the validated trace, after all threads ran.

#![allow(dead_code)]

use crate::hook::{K_FETCH_ADD, K_LOAD, K_STORE, O_ACQREL, O_ACQUIRE, O_RELEASE, O_SEQCST};

/// maximal number of threads (arrays); the number in use is `VH_TN`
pub const T: usize = 4;
pub static mut VH_TN: usize = 2;
/// events per thread
pub const M: usize = 7;
pub const NLOC: usize = 4;
pub const LOC_ITER: u8 = 3;
pub const K_ITER: u32 = 3;
pub const NO_PRED: u8 = 255;

#[derive(Clone, Copy)]
pub struct TEv {
    pub ts: u8,
    pub loc: u8,
    pub kind: u32,
    pub operand: usize,
    pub before: usize,
    pub after: usize,
    /// timestamp of the latest earlier event on the same location (NO_PRED if none)
    pub pred: u8,
    /// memory ordering recorded from the real call site (9 = not yet consumed)
    pub ord: u32,
    /// index of the operation (within its thread) that performed the access
    pub op: u8,
    /// happens-before bookkeeping, guessed and constrained locally during validation (C07):
    /// vector clock of the thread after this event
    pub vc: [u8; T],
    /// release clock of the event's location after this event (what an acquire read of it joins)
    pub lr: [u8; T],
    /// ITER events: per thread, the own-clock of its latest use of the wrapped iterator so far
    pub li: [u8; T],
    /// ITER events: some earlier use by another thread is not ordered before this one
    pub racy: bool,
}

pub const TEV0: TEv = TEv { ts: 0, loc: 0, kind: 0, operand: 0, before: 0, after: 0, pred: NO_PRED, ord: 9, op: 0, vc: [0; T], lr: [0; T], li: [0; T], racy: false };

pub static mut VH_TEV: [[TEv; M]; T] = [[TEV0; M]; T];
/// number of guessed events per thread
pub static mut VH_TCNT: [usize; T] = [0; T];
/// next event to be consumed per thread
pub static mut VH_TCUR: [usize; T] = [0; T];
/// the thread whose operations are running
pub static mut VH_TID: usize = 0;
/// index of the running operation within its thread
pub static mut VH_TOP: u8 = 0;
/// the iterator object of the running thread and the cell offsets seen so far
pub static mut VH_TOBJ: *const u8 = core::ptr::null();
pub static mut VH_TOFF0: usize = 0;
pub static mut VH_TOFF1: usize = 0;
pub static mut VH_TOFF2: usize = 0;
pub static mut VH_TOFF_N: usize = 0;
/// length of the wrapped probe
pub static mut VH_TLEN: usize = 0;
/// final memory of the trace, then the memory of the solo phase
pub static mut VH_TFINAL: [usize; NLOC] = [0; NLOC];
/// solo phase bookkeeping (last thread only)
pub static mut VH_TSOLO_ALLOWED: bool = false;
pub static mut VH_TSOLO: bool = false;
pub static mut VH_TSOLO_LOADS: usize = 0;
pub static mut VH_TSOLO_EVENTS: usize = 0;
pub static mut VH_TSOLO_ITER: usize = 0;
pub static mut VH_THANG: bool = false;
/// largest plain value allowed in the trace; values above `usize::MAX - VMAX` are allowed too
pub const VMAX: usize = 1 << 12;
pub const SPIN_MAX: usize = 4;

fn small(v: usize) -> bool {
    v <= VMAX || v >= usize::MAX - VMAX
}

fn step_after(kind: u32, operand: usize, before: usize, len: usize) -> usize {
    if kind == K_LOAD {
        before
    } else if kind == K_STORE {
        operand
    } else if kind == K_FETCH_ADD {
        before.wrapping_add(operand)
    } else if before < len {
        before + 1
    } else {
        before
    }
}

/// Guesses the trace and validates it. `total` = number of events of all threads.
pub fn guess_and_validate(len: usize, hb: bool, nthreads: usize) {
    unsafe {
        VH_TN = nthreads;
        VH_TLEN = len;
        let mut total = 0usize;
        let mut t = 0;
        while t < VH_TN {
            let c: usize = kani::any();
            kani::assume(c <= M);
            VH_TCNT[t] = c;
            VH_TCUR[t] = 0;
            total += c;
            let mut j = 0;
            while j < M {
                if j < c {
                    let e = TEv {
                        ts: kani::any(),
                        loc: kani::any(),
                        kind: kani::any(),
                        operand: kani::any(),
                        before: kani::any(),
                        after: kani::any(),
                        pred: kani::any(),
                        ord: kani::any(),
                        op: kani::any(),
                        vc: kani::any(),
                        lr: kani::any(),
                        li: kani::any(),
                        racy: kani::any(),
                    };
                    kani::assume(e.ord <= 4 && (e.op as usize) < 4);
                    {
                        let mut x = 0;
                        while x < T {
                            if x < VH_TN && hb {
                                kani::assume(e.vc[x] as usize <= 2 * M);
                            } else {
                                // unused threads / no happens-before analysis: no free bits
                                kani::assume(e.vc[x] == 0 && e.lr[x] == 0 && e.li[x] == 0);
                            }
                            x += 1;
                        }
                        if !hb {
                            kani::assume(!e.racy);
                        }
                    }
                    kani::assume((e.ts as usize) < total_bound());
                    kani::assume((e.loc as usize) < NLOC);
                    kani::assume(e.kind <= K_ITER);
                    kani::assume((e.kind == K_ITER) == (e.loc == LOC_ITER));
                    kani::assume(small(e.operand) && small(e.before));
                    kani::assume(e.after == step_after(e.kind, e.operand, e.before, len));
                    if j > 0 {
                        kani::assume(VH_TEV[t][j - 1].ts < e.ts);
                    }
                    VH_TEV[t][j] = e;
                }
                j += 1;
            }
            t += 1;
        }
        // timestamps are exactly 0..total (distinct across threads, dense)
        let mut t = 0;
        while t < VH_TN {
            let mut j = 0;
            while j < M {
                if j < VH_TCNT[t] {
                    let e = VH_TEV[t][j];
                    kani::assume((e.ts as usize) < total);
                    // distinct from every event of the later threads
                    let mut u = t + 1;
                    while u < VH_TN {
                        let mut k = 0;
                        while k < M {
                            if k < VH_TCNT[u] {
                                kani::assume(VH_TEV[u][k].ts != e.ts);
                            }
                            k += 1;
                        }
                        u += 1;
                    }
                }
                j += 1;
            }
            t += 1;
        }
        // sequential consistency: `before` is the `after` of the predecessor on the same location
        let mut t = 0;
        while t < VH_TN {
            let mut j = 0;
            while j < M {
                if j < VH_TCNT[t] {
                    let e = VH_TEV[t][j];
                    let mut found = e.pred == NO_PRED;
                    if e.pred == NO_PRED {
                        kani::assume(e.before == 0);
                    } else {
                        kani::assume(e.pred < e.ts);
                    }
                    // predecessor on the same location: its release clock / iterator-use record / thread
                    let mut g_lr = [0u8; T];
                    let mut g_li = [0u8; T];
                    let mut u = 0;
                    while u < VH_TN {
                        let mut k = 0;
                        while k < M {
                            if k < VH_TCNT[u] {
                                let g = VH_TEV[u][k];
                                if g.loc == e.loc && g.ts < e.ts {
                                    // no same-location event between the predecessor and e
                                    kani::assume(e.pred != NO_PRED && g.ts <= e.pred);
                                    if g.ts == e.pred {
                                        kani::assume(g.after == e.before);
                                        found = true;
                                        g_lr = g.lr;
                                        g_li = g.li;
                                    }
                                }
                            }
                            k += 1;
                        }
                        u += 1;
                    }
                    kani::assume(found);
                    if hb {
                        // vector clock: program order, then the acquire join with what the location publishes
                        let mut base = if j == 0 { [0u8; T] } else { VH_TEV[t][j - 1].vc };
                        base[t] = base[t].wrapping_add(1);
                        let is_load = e.kind == K_LOAD;
                        let is_rmw = e.kind == K_FETCH_ADD;
                        let is_iter = e.kind == K_ITER;
                        let joins = (is_load || is_rmw) && acq(e.ord);
                        let mut x = 0;
                        while x < VH_TN {
                            let v = if joins && g_lr[x] > base[x] { g_lr[x] } else { base[x] };
                            kani::assume(e.vc[x] == v);
                            // release clock of the location after this event
                            let l = if is_load || is_iter {
                                g_lr[x]
                            } else if is_rmw {
                                // an RMW continues the release sequence; a releasing one adds its own clock
                                if rel(e.ord) && v > g_lr[x] { v } else { g_lr[x] }
                            } else if rel(e.ord) {
                                v
                            } else {
                                0
                            };
                            kani::assume(e.lr[x] == l);
                            let i = if !is_iter { 0 } else if x == t { v } else { g_li[x] };
                            kani::assume(e.li[x] == i);
                            x += 1;
                        }
                        let mut r = false;
                        if is_iter {
                            let mut x = 0;
                            while x < VH_TN {
                                if x != t && g_li[x] > e.vc[x] {
                                    r = true;
                                }
                                x += 1;
                            }
                        }
                        kani::assume(e.racy == r);
                    }
                }
                j += 1;
            }
            t += 1;
        }
        // final memory of the trace per location
        let mut l = 0;
        while l < NLOC {
            VH_TFINAL[l] = 0;
            let mut best: usize = 0; // ts + 1 of the latest event on l
            let mut t = 0;
            while t < VH_TN {
                let mut j = 0;
                while j < M {
                    if j < VH_TCNT[t] {
                        let e = VH_TEV[t][j];
                        if e.loc as usize == l && (e.ts as usize) + 1 > best {
                            best = e.ts as usize + 1;
                            VH_TFINAL[l] = e.after;
                        }
                    }
                    j += 1;
                }
                t += 1;
            }
            l += 1;
        }
        VH_TSOLO = false;
        VH_TSOLO_LOADS = 0;
        VH_TSOLO_EVENTS = 0;
        VH_THANG = false;
        VH_TOFF_N = 0;
        crate::hook::VH_TRACE_MODE = true;
    }
}

fn acq(o: u32) -> bool {
    o == O_ACQUIRE || o == O_ACQREL || o == O_SEQCST
}
fn rel(o: u32) -> bool {
    o == O_RELEASE || o == O_ACQREL || o == O_SEQCST
}

const fn total_bound() -> usize {
    T * M
}

pub fn start_thread<X>(t: usize, solo_allowed: bool, obj: &X) {
    unsafe {
        VH_TOBJ = obj as *const X as *const u8;
        VH_TCUR[t] = 0;
        VH_TID = t;
        VH_TOP = 0;
        VH_TSOLO_ALLOWED = solo_allowed;
        VH_TSOLO = false;
    }
}

pub fn start_op(o: u8) {
    unsafe {
        VH_TOP = o;
        VH_TSOLO_LOADS = 0;
    }
}

/// The thread has returned from all its operations: it must have consumed exactly its guessed events
/// (placed before the next thread starts, so that later threads run against an accepted prefix).
pub fn end_thread(t: usize) {
    unsafe {
        kani::assume(VH_TSOLO || VH_TCUR[t] == VH_TCNT[t]);
    }
}

/// Witness: some operation read the same location twice (it waited for another thread).
pub fn waited() -> bool {
    unsafe {
        let mut t = 0;
        while t < VH_TN {
            let mut j = 0;
            while j < M {
                let mut k = j + 1;
                while k < M {
                    if k < VH_TCNT[t] {
                        let a = VH_TEV[t][j];
                        let b = VH_TEV[t][k];
                        if a.kind == K_LOAD && b.kind == K_LOAD && a.loc == b.loc && a.op == b.op {
                            return true;
                        }
                    }
                    k += 1;
                }
                j += 1;
            }
            t += 1;
        }
        false
    }
}

/// timestamp of the next event the running thread will consume (`total` if it is in / enters solo)
pub fn now() -> usize {
    unsafe {
        let t = VH_TID;
        if VH_TSOLO || VH_TCUR[t] >= VH_TCNT[t] {
            T * M + VH_TSOLO_EVENTS
        } else {
            VH_TEV[t][VH_TCUR[t]].ts as usize
        }
    }
}

/// timestamp of the last event the running thread consumed (0 if none)
pub fn last() -> usize {
    unsafe {
        let t = VH_TID;
        if VH_TSOLO {
            T * M + VH_TSOLO_EVENTS
        } else if VH_TCUR[t] == 0 {
            0
        } else {
            VH_TEV[t][VH_TCUR[t] - 1].ts as usize
        }
    }
}

unsafe fn solo_access(loc: usize, kind: u32, operand: usize) -> usize {
    let before = VH_TFINAL[loc];
    let after = step_after(kind, operand, before, VH_TLEN);
    VH_TFINAL[loc] = after;
    VH_TSOLO_EVENTS += 1;
    if kind == K_LOAD {
        VH_TSOLO_LOADS += 1;
        if VH_TSOLO_LOADS > SPIN_MAX {
            // the memory is static (every other thread has finished and all guessed events have been
            // accepted by real code) and this operation has only re-read it SPIN_MAX times in a row:
            // it will do so forever. Exact: this is the last thread, running after the whole trace.
            VH_THANG = true;
            assert!(false, "C09: a call waits forever although every other thread has finished");
        }
    } else {
        VH_TSOLO_LOADS = 0;
    }
    before
}

/// Location name of a cell: its byte offset inside the iterator object the running thread operates on
/// (every thread runs on its own object of identical layout: in trace mode no state is shared through
/// the objects, everything shared lives in the trace). Offsets are numbered in first-seen order.
unsafe fn loc_name(cell: *mut usize) -> u8 {
    let off = (cell as *const u8).offset_from(VH_TOBJ) as usize;
    if VH_TOFF_N > 0 && VH_TOFF0 == off {
        0
    } else if VH_TOFF_N > 1 && VH_TOFF1 == off {
        1
    } else if VH_TOFF_N > 2 && VH_TOFF2 == off {
        2
    } else if VH_TOFF_N == 0 {
        VH_TOFF0 = off;
        VH_TOFF_N = 1;
        0
    } else if VH_TOFF_N == 1 {
        VH_TOFF1 = off;
        VH_TOFF_N = 2;
        1
    } else if VH_TOFF_N == 2 {
        VH_TOFF2 = off;
        VH_TOFF_N = 3;
        2
    } else {
        kani::assume(false);
        0
    }
}

/// Called by the hook for every atomic access of the crate while the trace is active.
pub unsafe fn trace_access(cell: *mut usize, kind: u32, ord: u32, operand: usize) -> usize {
    let t = VH_TID;
    if VH_TSOLO || VH_TCUR[t] >= VH_TCNT[t] {
        // the trace of this thread is used up
        kani::assume(VH_TSOLO_ALLOWED);
        VH_TSOLO = true;
        if VH_THANG {
            // already decided: let the loop run out quietly (the unwinding bound is not the verdict)
            kani::assume(false);
        }
        let l = loc_name(cell) as usize;
        return solo_access(l, kind, operand);
    }
    let j = VH_TCUR[t];
    let e = VH_TEV[t][j];
    kani::assume(e.kind == kind);
    kani::assume(e.loc == loc_name(cell));
    if kind != K_LOAD {
        kani::assume(e.operand == operand);
    }
    // the memory ordering and the operation index are part of the guess (no writes into the trace)
    kani::assume(e.ord == ord && e.op == VH_TOP);
    VH_TCUR[t] = j + 1;
    e.before
}

/// Called by the trace probe for every `next` of the wrapped iterator; returns the probe position.
pub fn iter_access() -> usize {
    unsafe {
        let t = VH_TID;
        if VH_TSOLO || VH_TCUR[t] >= VH_TCNT[t] {
            kani::assume(VH_TSOLO_ALLOWED);
            VH_TSOLO = true;
            VH_TSOLO_ITER += 1;
            return solo_access(LOC_ITER as usize, K_ITER, 0);
        }
        let j = VH_TCUR[t];
        let e = VH_TEV[t][j];
        kani::assume(e.kind == K_ITER && e.loc == LOC_ITER);
        kani::assume(e.ord == 0 && e.op == VH_TOP);
        VH_TCUR[t] = j + 1;
        e.before
    }
}

/// After all threads ran: every guessed event was consumed by real code.
pub fn all_consumed() -> bool {
    unsafe {
        let mut t = 0;
        while t < VH_TN {
            if VH_TCUR[t] != VH_TCNT[t] {
                return false;
            }
            t += 1;
        }
        true
    }
}

pub fn finish() {
    unsafe {
        crate::hook::VH_TRACE_MODE = false;
    }
}

/// Probes whose position lives in the trace (location ITER). Three identical types: every run of a
/// thread's operations uses its own monomorphisation of the crate code, so that the checks *inside* the
/// crate can be attributed: `TProbeA<i>` = thread i (not the last), first pass (runs against a guess the later threads have
/// not accepted yet: its in-crate checks are not believed), `TProbeB` = last thread, `TProbeC<i>` = thread i
/// again after the whole trace has been accepted (both exact).
macro_rules! tprobe {
    ($name:ident) => {
        #[derive(Debug)]
        pub struct $name {
            pub len: usize,
            pub hint: u8,
        }
        impl Iterator for $name {
            type Item = usize;
            fn next(&mut self) -> Option<usize> {
                let p = iter_access();
                if p < self.len {
                    Some(p)
                } else {
                    None
                }
            }
            fn size_hint(&self) -> (usize, Option<usize>) {
                match self.hint {
                    0 => (self.len, Some(self.len)),
                    1 => (0, Some(self.len)),
                    _ => (0, None),
                }
            }
        }
    };
}
tprobe!(TProbeA0);
tprobe!(TProbeA1);
tprobe!(TProbeA2);
tprobe!(TProbeB);
tprobe!(TProbeC0);
tprobe!(TProbeC1);
tprobe!(TProbeC2);

/// C07, read off the validated trace (the clocks were constrained during validation from the memory
/// orderings the real call sites used; C11 rules: a release store heads a release sequence, RMWs continue
/// it, an acquire load/RMW that reads from it synchronises, relaxed accesses do neither):
/// (race, overlap) = (two uses of the wrapped iterator by different threads are unordered by
/// happens-before, another thread used the iterator between two uses belonging to one operation).
pub fn iter_race() -> (bool, bool) {
    unsafe {
        let mut race = false;
        let mut overlap = false;
        let mut t = 0;
        while t < VH_TN {
            let mut j = 0;
            while j < M {
                if j < VH_TCNT[t] && VH_TEV[t][j].kind == K_ITER {
                    let e = VH_TEV[t][j];
                    if e.racy {
                        race = true;
                    }
                    // e lies strictly between two uses of the same operation of another thread
                    let mut u = 0;
                    while u < VH_TN {
                        if u != t {
                            let mut a = 0;
                            while a < M {
                                let mut b = a + 1;
                                while b < M {
                                    if b < VH_TCNT[u] {
                                        let x = VH_TEV[u][a];
                                        let y = VH_TEV[u][b];
                                        if x.kind == K_ITER && y.kind == K_ITER && x.op == y.op && x.ts < e.ts && e.ts < y.ts {
                                            overlap = true;
                                        }
                                    }
                                    b += 1;
                                }
                                a += 1;
                            }
                        }
                        u += 1;
                    }
                }
                j += 1;
            }
            t += 1;
        }
        (race, overlap)
    }
}
