//! Kani harnesses for orx-concurrent-iter. Everything is compiled against /repo's working tree.
//! Modules that need the atomic hook are only built with `--cfg orx_concurrent_iter_verif`.
#![cfg_attr(kani, feature(allocator_api))]
#![allow(static_mut_refs)]
#![allow(clippy::all)]

#[cfg(kani)]
pub mod common;
#[cfg(kani)]
pub mod seq;
#[cfg(kani)]
mod h_seq;
#[cfg(kani)]
mod h_more;
#[cfg(kani)]
mod h_c17;
#[cfg(kani)]
mod h_bound;

#[cfg(all(kani, orx_concurrent_iter_verif))]
pub mod hook;
#[cfg(all(kani, orx_concurrent_iter_verif))]
pub mod tbmc;
#[cfg(all(kani, orx_concurrent_iter_verif))]
mod h_ind;
#[cfg(all(kani, orx_concurrent_iter_verif))]
mod h_tbmc;
#[cfg(all(kani, orx_concurrent_iter_verif))]
mod h_env;
