//! SEQ family: a bounded, fully symbolic single-threaded operation history on one real concurrent
//! iterator, compared step by step with the reference cursor. Every assertion message starts with the
//! ids of the properties it decides.

#![allow(dead_code)]

use crate::common::*;
use orx_concurrent_iter::*;

pub const OP_NEXT: u8 = 0;
pub const OP_NEXT_ID: u8 = 1;
pub const OP_CHUNK: u8 = 2;
pub const OP_BUFFERED: u8 = 3;
pub const OP_VALUES: u8 = 4;
pub const OP_IDS_VALUES: u8 = 5;
pub const OP_SKIP: u8 = 6;
pub const OP_LEN: u8 = 7;
pub const OP_FOR_EACH: u8 = 8;
pub const OP_ENUM_FOR_EACH: u8 = 9;
pub const OP_FOLD: u8 = 10;
pub const N_OPS: u8 = 11;

pub const M_SINGLE: u16 = (1 << OP_NEXT) | (1 << OP_NEXT_ID);
pub const M_ADAPT: u16 = (1 << OP_VALUES) | (1 << OP_IDS_VALUES);
pub const M_CHUNK: u16 = 1 << OP_CHUNK;
pub const M_BUF: u16 = 1 << OP_BUFFERED;
pub const M_SKIP: u16 = 1 << OP_SKIP;
pub const M_LEN: u16 = 1 << OP_LEN;
pub const M_LOOPS: u16 = (1 << OP_FOR_EACH) | (1 << OP_ENUM_FOR_EACH) | (1 << OP_FOLD);
pub const M_PULLS: u16 = M_SINGLE | M_CHUNK | M_BUF;
pub const M_CORE: u16 = M_PULLS | M_SKIP | M_LEN;

pub const END_DROP: u8 = 0;
pub const END_SEQ_ALL: u8 = 1;
pub const END_SEQ_PART: u8 = 2;

/// What the harness knows about the source kind (not about the implementation).
#[derive(Clone, Copy)]
pub struct KindInfo {
    /// source length
    pub len: usize,
    /// the source has an exactly known size (`try_get_len` must be `Some`)
    pub sized: bool,
    /// largest chunk size used
    pub nmax: usize,
    /// allowed operations (bit mask over OP_*)
    pub ops: u16,
    /// allowed end operations (bit mask over END_*)
    pub ends: u8,
    /// the wrapped iterator's exact-looking size hint over-promises: only the permanence clauses of the
    /// length queries are checked (No after the end was reported / after skip_to_end)
    pub lying: bool,
    /// concrete chunk size for buffered iterators (0 = symbolic in [1, nmax]); a symbolic size makes the
    /// wrapper's buffer allocation symbolic, which CBMC handles very badly
    pub nbuf: usize,
}

pub struct Model {
    pub len: usize,
    /// number of positions handed out so far (`<= len`)
    pub pos: usize,
    pub skipped: bool,
    /// a single pull or one-shot chunk pull has reported the end
    pub end_seen: bool,
    /// how often each position was handed out
    pub deliv: [u8; LMAX],
    /// witnesses for the vacuity guard
    pub w_short_chunk: bool,
    pub w_partial: bool,
    pub w_past_end: bool,
    pub w_after_skip: bool,
    pub w_second_buffered: bool,
}

impl Model {
    pub fn new(len: usize) -> Self {
        Self {
            len,
            pos: 0,
            skipped: false,
            end_seen: false,
            deliv: [0; LMAX],
            w_short_chunk: false,
            w_partial: false,
            w_past_end: false,
            w_after_skip: false,
            w_second_buffered: false,
        }
    }

    fn nothing_left(&self) -> bool {
        self.skipped || self.pos >= self.len
    }

    /// A pull reported the end.
    fn on_none(&mut self, definitive: bool) {
        assert!(
            self.nothing_left(),
            "C01 C04 C09: a pull reported the end although undelivered positions remain"
        );
        if self.skipped {
            self.w_after_skip = true;
        } else {
            self.w_past_end = true;
        }
        if definitive {
            self.end_seen = true;
        }
    }

    /// A pull is about to hand out positions `[b, b+k)`.
    fn on_some(&mut self, b: usize, k: usize) {
        assert!(
            !self.skipped,
            "C06: a pull that started after skip_to_end returned delivered an element"
        );
        assert!(
            !self.end_seen,
            "C05: a pull delivered an element after the end had been reported"
        );
        assert!(
            self.pos < self.len,
            "C05 C01 C04: a pull delivered an element although every position was already handed out"
        );
        assert!(
            b == self.pos,
            "C04 C01: sequential cursor: positions must be handed out left to right without gaps"
        );
        assert!(k >= 1, "C03 C16: empty chunk");
        assert!(
            b + k <= self.len,
            "C01 C03 C16: positions beyond the source length handed out"
        );
        let mut i = 0;
        while i < k {
            self.deliv[b + i] += 1;
            i += 1;
        }
        self.pos = b + k;
    }
}

fn single<I: ConcurrentIter, F: Fn(I::Item) -> usize>(
    m: &mut Model,
    r: Option<(Option<usize>, I::Item)>,
    f: &F,
) {
    match r {
        None => m.on_none(true),
        Some((idx, v)) => {
            let p = f(v);
            if let Some(i) = idx {
                assert!(
                    i == p,
                    "C02: the element delivered with index i is not the source element at position i"
                );
            }
            m.on_some(p, 1);
        }
    }
}

/// Checks one chunk (one-shot or buffered): `announced` was read before consumption.
fn chunk<T, V: ExactSizeIterator<Item = T>, F: Fn(T) -> usize>(
    m: &mut Model,
    begin_idx: usize,
    mut vals: V,
    n: usize,
    j: usize,
    f: &F,
) {
    let announced = vals.len();
    let avail = m.len - m.pos.min(m.len);
    if !m.nothing_left() {
        assert!(
            begin_idx == m.pos,
            "C02 C03 C04: the reported begin index of a chunk is not the source position of its first element"
        );
    }
    m.on_some(begin_idx, announced.max(1).min(LMAX));
    assert!(announced >= 1, "C03 C16: a chunk pull returned an empty chunk");
    assert!(announced <= n, "C03: chunk longer than the requested size");
    assert!(
        announced == n.min(avail),
        "C03 C01: chunk is short although it does not end at the last element (or too long)"
    );
    if announced < n {
        m.w_short_chunk = true;
    }
    let take = j.min(announced);
    if take < announced {
        m.w_partial = true;
    }
    let mut k = 0;
    while k < take {
        assert!(
            vals.len() == announced - k,
            "C03: ExactSizeIterator::len during consumption"
        );
        match vals.next() {
            None => {
                assert!(
                    false,
                    "C03 C01: chunk yielded fewer elements than it announced"
                );
            }
            Some(v) => {
                let p = f(v);
                assert!(
                    p == begin_idx + k,
                    "C02 C03: chunk element k is not the source element at begin_idx + k"
                );
            }
        }
        k += 1;
    }
    if take == announced {
        assert!(
            vals.next().is_none(),
            "C03 C01 C04: chunk yielded more elements than it announced (elements outside its consecutive run)"
        );
        assert!(vals.len() == 0, "C03: ExactSizeIterator::len after consumption");
    }
    // `vals` dropped here: unconsumed elements of a consuming chunk are destroyed by the machinery
}

fn check_len<I: ConcurrentIter>(it: &I, m: &Model, info: &KindInfo) {
    let l = it.try_get_len();
    let h = it.has_more();
    match l {
        None => assert!(h == HasMore::Maybe, "C11: has_more inconsistent with try_get_len"),
        Some(0) => assert!(h == HasMore::No, "C11: has_more inconsistent with try_get_len"),
        Some(k) => assert!(h == HasMore::Yes(k), "C11: has_more inconsistent with try_get_len"),
    }
    let remaining = if m.skipped { 0 } else { m.len - m.pos };
    if m.skipped {
        assert!(h == HasMore::No, "C06 C11: has_more must be No after skip_to_end");
    }
    if m.end_seen {
        assert!(
            h == HasMore::No,
            "C11 C05: has_more must be No after a pull reported the end"
        );
    }
    if info.lying {
        return;
    }
    if info.sized {
        assert!(
            l == Some(remaining),
            "C11: try_get_len differs from the number of elements later pulls deliver"
        );
    } else {
        match l {
            None => {}
            Some(k) => assert!(
                k == remaining,
                "C11: a definite length answer differs from what later pulls deliver"
            ),
        }
    }
}

/// Runs `prefix` single pulls (a symbolic number `<= prefix_max`), then one symbolic operation per entry
/// of `script` (each entry is the mask of operations allowed at that step), then a symbolic end
/// operation. `f` decodes an item into its source position and disposes of it.
pub fn run<I, F>(it: I, info: KindInfo, prefix_max: usize, script: &[u16], f: F) -> Model
where
    I: ConcurrentIter,
    F: Fn(I::Item) -> usize,
{
    let mut m = Model::new(info.len);
    let pinfo = KindInfo { ops: 1 << OP_NEXT, ..info };
    if prefix_max > 0 {
        let k: usize = kani::any();
        kani::assume(k <= prefix_max);
        let mut i = 0;
        while i < k {
            step(&it, &mut m, &pinfo, OP_NEXT, &f);
            i += 1;
        }
    }
    let mut s = 0;
    while s < script.len() {
        let sinfo = KindInfo { ops: script[s], ..info };
        let op: u8 = kani::any();
        kani::assume(op < N_OPS);
        kani::assume((sinfo.ops >> op) & 1 == 1);
        step(&it, &mut m, &sinfo, op, &f);
        s += 1;
    }
    finish(it, &mut m, &info, &f);
    m
}

pub fn step<I, F>(it: &I, m: &mut Model, info: &KindInfo, op: u8, f: &F)
where
    I: ConcurrentIter,
    F: Fn(I::Item) -> usize,
{
    let on = |o: u8| (info.ops >> o) & 1 == 1 && op == o;
    if on(OP_NEXT) {
        {
            let r = it.next();
            single::<I, F>(m, r.map(|v| (None, v)), f);
        }
    } else if on(OP_NEXT_ID) {
        {
            let r = it.next_id_and_value();
            single::<I, F>(m, r.map(|x| (Some(x.idx), x.value)), f);
        }
    } else if on(OP_VALUES) {
        {
            let r = it.values().next();
            single::<I, F>(m, r.map(|v| (None, v)), f);
        }
    } else if on(OP_IDS_VALUES) {
        {
            let r = it.ids_and_values().next();
            single::<I, F>(m, r.map(|(i, v)| (Some(i), v)), f);
        }
    } else if on(OP_CHUNK) {
        {
            let n: usize = kani::any();
            kani::assume(n >= 1 && n <= info.nmax);
            let j: usize = kani::any();
            match it.next_chunk(n) {
                None => m.on_none(true),
                Some(c) => chunk(m, c.begin_idx, c.values, n, j, f),
            }
        }
    } else if on(OP_BUFFERED) {
        {
            let n: usize = if info.nbuf > 0 { info.nbuf } else { kani::any() };
            kani::assume(n >= 1 && n <= info.nmax);
            let j1: usize = kani::any();
            let j2: usize = kani::any();
            let twice: bool = kani::any();
            let mut b = it.buffered_iter(n);
            match b.next() {
                None => m.on_none(false),
                Some(c) => chunk(m, c.begin_idx, c.values, n, j1, f),
            }
            if twice {
                m.w_second_buffered = true;
                match b.next() {
                    None => m.on_none(false),
                    Some(c) => chunk(m, c.begin_idx, c.values, n, j2, f),
                }
            }
        }
    } else if on(OP_SKIP) {
        {
            it.skip_to_end();
            m.skipped = true;
        }
    } else if on(OP_LEN) {
        check_len(it, m, info)
    } else if on(OP_FOR_EACH) {
        {
            let n: usize = loop_chunk(info);
            it.for_each(n, |v| {
                let p = f(v);
                m.on_some(p, 1);
            });
            loops_done(it, m, n);
        }
    } else if on(OP_ENUM_FOR_EACH) {
        {
            let n: usize = loop_chunk(info);
            it.enumerate_for_each(n, |i, v| {
                let p = f(v);
                assert!(
                    i == p,
                    "C12 C02: enumerate_for_each passed an index that is not the element's position"
                );
                m.on_some(p, 1);
            });
            loops_done(it, m, n);
        }
    } else if on(OP_FOLD) {
        {
            let n: usize = loop_chunk(info);
            let before = m.pos;
            let skipped = m.skipped;
            let sum = it.fold(n, 0usize, |a, v| {
                let p = f(v);
                m.on_some(p, 1);
                a + p + 1
            });
            // sequential fold of (p + 1) over the undelivered positions
            let mut want = 0usize;
            let mut p = before;
            while p < m.len && !skipped {
                want += p + 1;
                p += 1;
            }
            assert!(sum == want, "C12: fold result differs from the sequential fold");
            loops_done(it, m, n);
        }
    }
}

/// Chunk size of for_each / enumerate_for_each / fold: symbolic in [1, nmax], or - when the kind allocates
/// `chunk_size` buffer slots (nbuf > 0) - one of the two concrete values {1, nbuf} (both code paths).
fn loop_chunk(info: &KindInfo) -> usize {
    if info.nbuf > 0 {
        if kani::any() {
            1
        } else {
            info.nbuf
        }
    } else {
        let n: usize = kani::any();
        kani::assume(n >= 1 && n <= info.nmax);
        n
    }
}

fn loops_done<I: ConcurrentIter>(it: &I, m: &mut Model, n: usize) {
    assert!(
        m.nothing_left(),
        "C12 C01: for_each/fold returned before the iterator was exhausted"
    );
    let _ = n;
    assert!(
        it.next().is_none(),
        "C12 C05: iterator not exhausted after for_each/fold returned"
    );
    m.end_seen = true;
}

pub fn finish<I, F>(it: I, m: &mut Model, info: &KindInfo, f: &F)
where
    I: ConcurrentIter,
    F: Fn(I::Item) -> usize,
{
    let end: u8 = kani::any();
    kani::assume(end < 3 && (info.ends >> end) & 1 == 1);
    if end == END_DROP {
        drop(it);
        return;
    }
    let j: usize = if end == END_SEQ_ALL { usize::MAX } else { kani::any() };
    let mut rem = it.into_seq_iter();
    let mut expect = m.pos;
    let mut first = true;
    let mut k = 0;
    // at most len items can remain; one extra round observes the end
    while k <= m.len && k < j {
        match rem.next() {
            None => {
                if !m.skipped {
                    assert!(
                        expect == m.len,
                        "C10: into_seq_iter lost undelivered elements of the source"
                    );
                }
                break;
            }
            Some(v) => {
                let p = f(v);
                assert!(p < m.len, "C10 C01: into_seq_iter yielded an element outside the source");
                assert!(
                    m.deliv[p] == 0,
                    "C10 C01 C08: into_seq_iter yielded an element that had already been delivered"
                );
                if m.skipped && first {
                    // after skip_to_end the remainder is a suffix of the undelivered elements
                    assert!(p >= expect, "C10: remainder is not a suffix of the undelivered part");
                    expect = p;
                }
                assert!(
                    p == expect,
                    "C10: into_seq_iter must yield the undelivered elements in source order"
                );
                first = false;
                expect += 1;
                m.deliv[p] += 1;
            }
        }
        k += 1;
    }
    if end == END_SEQ_ALL && m.skipped && !first {
        assert!(expect == m.len, "C10: remainder after skip_to_end is not a suffix of the source");
    }
    drop(rem);
}
