//! C16: boundary arithmetic. Range bounds are FULLY symbolic `usize` values (no small bound: the
//! arithmetic is loop-free as long as a chunk is only inspected through begin_idx / len() / first
//! element), chunk sizes are arbitrary in [0, usize::MAX]. Kani checks the build with overflow checks:
//! a reachable overflow is a failure here, which also rules out the wrapped value an unchecked build
//! would produce.
use crate::common::*;
use orx_concurrent_iter::*;

/// Reference: the range as a mathematical interval.
struct RModel {
    start: usize,
    len: usize,
    pos: usize, // positions handed out (<= len)
}

fn r_single(m: &mut RModel, r: Option<Next<usize>>) {
    match r {
        None => assert!(m.pos >= m.len, "C16 C01: a pull on a range reported the end although values remain"),
        Some(x) => {
            assert!(m.pos < m.len, "C16 C05: a pull on a range delivered a value past the end (wrapped or out of range)");
            assert!(x.idx == m.pos, "C16 C04: wrong index");
            assert!(x.value == m.start + x.idx, "C16 C02: value is not start + index");
            m.pos += 1;
        }
    }
}

fn r_chunk<V: ExactSizeIterator<Item = usize>>(m: &mut RModel, n: usize, r: Option<NextChunk<usize, V>>) {
    match r {
        None => assert!(n == 0 || m.pos >= m.len, "C16 C01: a chunk pull reported the end although values remain"),
        Some(c) => {
            assert!(n > 0, "C16: a chunk pull of size zero must deliver nothing");
            assert!(m.pos < m.len, "C16 C05: a chunk was delivered past the end");
            assert!(c.begin_idx == m.pos, "C16 C04: wrong begin index");
            let mut vals = c.values;
            let k = vals.len();
            let want = if n < m.len - m.pos { n } else { m.len - m.pos };
            assert!(k >= 1, "C16 C03: empty chunk");
            assert!(k == want, "C16 C03: chunk length is not min(n, remaining)");
            let first = vals.next();
            assert!(first == Some(m.start + m.pos), "C16 C02: first chunk value is not start + begin_idx (wrapped or out of range)");
            if k <= 3 {
                let mut i = 1;
                while i < 3 {
                    if i < k {
                        assert!(vals.next() == Some(m.start + m.pos + i), "C16 C02: chunk value is not start + index");
                    }
                    i += 1;
                }
                assert!(vals.next().is_none(), "C16 C03: chunk longer than announced");
            } else {
                assert!(vals.len() == k - 1, "C16 C03: announced length during consumption");
            }
            m.pos += k;
        }
    }
}

// @verif family=SEQ quick=C16,C10 thorough=C05 timeout=1500 owner=C16
// @bounds kind=Range<usize> with FULLY symbolic start,end in [0,usize::MAX] (empty and inverted included); history: next_id_and_value x k (k<=2), next_chunk(n) with n arbitrary in [0,usize::MAX-4], next_id_and_value, buffered_iter(m).next() with m arbitrary in [1,usize::MAX-4] and n+m+4 not overflowing, try_get_len, skip_to_end or not, into_seq_iter (bounds of the returned range); cumulative request below usize::MAX (the wrap of the counter is known finding KF-C16-wrap)
#[kani::proof]
#[kani::unwind(5)]
fn bound_range() {
    let start: usize = kani::any();
    let end: usize = kani::any();
    let len = if end > start { end - start } else { 0 };
    let mut m = RModel { start, len, pos: 0 };
    let it = IntoConcurrentIter::into_con_iter(start..end);
    let k: usize = kani::any();
    kani::assume(k <= 2);
    let mut i = 0;
    while i < k {
        r_single(&mut m, it.next_id_and_value());
        i += 1;
    }
    let n: usize = kani::any();
    let mb: usize = kani::any();
    kani::assume(n <= usize::MAX - 4 && mb >= 1 && mb <= usize::MAX - 4);
    kani::assume(n.checked_add(mb).map_or(false, |s| s <= usize::MAX - 16));
    let before = it.try_get_len();
    r_chunk(&mut m, n, it.next_chunk(n));
    if n == 0 {
        assert!(it.try_get_len() == before, "C16: a chunk pull of size zero must leave the iterator unchanged");
    }
    r_single(&mut m, it.next_id_and_value());
    {
        let mut b = it.buffered_iter(mb);
        let r = b.next();
        r_chunk(&mut m, mb, r);
    }
    r_single(&mut m, it.next_id_and_value());
    assert!(it.try_get_len() == Some(m.len - m.pos), "C16 C11: try_get_len at the boundary");
    let skip: bool = kani::any();
    // the only range whose length is usize::MAX leaves the index counter no room after skip_to_end
    // (cumulative request >= usize::MAX: known finding KF-C16-wrap)
    kani::assume(!(skip && len == usize::MAX));
    if skip {
        it.skip_to_end();
        assert!(it.next().is_none(), "C16 C06: pull after skip_to_end on a boundary range");
        assert!(it.try_get_len() == Some(0), "C16 C06 C11: try_get_len after skip_to_end");
    }
    let rem = it.into_seq_iter();
    if skip {
        assert!(rem.start >= rem.end || (rem.start >= m.start + m.pos && rem.end == end), "C16 C10: remainder after skip must be a suffix of the undelivered values");
    } else if m.pos < m.len {
        assert!(rem.start == m.start + m.pos && rem.end == end, "C16 C10: remainder of a boundary range");
    } else {
        assert!(rem.start >= rem.end, "C16 C10 C05: remainder must be empty once everything was delivered");
    }
    kani::cover!(end == usize::MAX && len > 0 && m.pos == len, "W: a range ending at usize::MAX was exhausted");
    kani::cover!(start > end, "W: inverted range");
    kani::cover!(n == 0 && len > 0, "W: chunk size zero on a non-empty range");
    kani::cover!(start >= usize::MAX / 2 && n > usize::MAX / 2 && len > 2, "W: huge chunk size on a high range");
}

fn s_pulls<I: ConcurrentIter, F: Fn(I::Item) -> usize>(it: &I, len: usize, f: F) {
    let mut pos = 0usize;
    let k: usize = kani::any();
    kani::assume(k <= len + 1);
    let mut i = 0;
    while i < k {
        match it.next_id_and_value() {
            None => assert!(pos >= len, "C16 C01: end reported although elements remain"),
            Some(x) => {
                assert!(pos < len && x.idx == pos && f(x.value) == pos, "C16 C02 C04: single pull at the boundary");
                pos += 1;
            }
        }
        i += 1;
    }
    let n: usize = kani::any();
    // the counter is a machine word: cumulative requests must stay below usize::MAX (KF-C16-wrap)
    kani::assume(n <= usize::MAX - 16);
    let before = it.try_get_len();
    match it.next_chunk(n) {
        None => assert!(n == 0 || pos >= len, "C16 C01: a chunk pull reported the end although elements remain"),
        Some(c) => {
            assert!(n > 0, "C16: a chunk pull of size zero must deliver nothing");
            assert!(pos < len && c.begin_idx == pos, "C16 C04 C05: chunk at the boundary");
            let mut vals = c.values;
            let kk = vals.len();
            let want = if n < len - pos { n } else { len - pos };
            assert!(kk >= 1, "C16 C03: empty chunk");
            assert!(kk == want, "C16 C03: chunk length is not min(n, remaining)");
            let mut j = 0;
            while j < 3 {
                if j < kk {
                    match vals.next() {
                        None => assert!(false, "C16 C03: chunk shorter than announced"),
                        Some(v) => assert!(f(v) == pos + j, "C16 C02: chunk element at the boundary"),
                    }
                }
                j += 1;
            }
            assert!(vals.next().is_none(), "C16 C03: chunk longer than announced");
            pos += kk;
        }
    }
    if n == 0 {
        assert!(it.try_get_len() == before, "C16: a chunk pull of size zero must leave the iterator unchanged");
    }
    // two further pulls
    let mut i = 0;
    while i < 2 {
        match it.next_id_and_value() {
            None => assert!(pos >= len, "C16 C01: end reported although elements remain"),
            Some(x) => {
                assert!(pos < len && x.idx == pos && f(x.value) == pos, "C16 C05 C02: pull after a boundary chunk");
                pos += 1;
            }
        }
        i += 1;
    }
    kani::cover!(n > usize::MAX / 2 && pos == len && len > 1, "W: huge chunk size consumed the rest");
    kani::cover!(n == 0 && k < len, "W: chunk size zero mid-way");
}

// @verif family=SEQ quick=C16 timeout=1500 owner=C16
// @bounds kind=&[u8] len<=3; k<=len+1 single pulls; next_chunk(n) with n arbitrary in [0,usize::MAX-16]; 2 more single pulls
#[kani::proof]
#[kani::unwind(6)]
fn bound_slice() {
    let len: usize = kani::any();
    kani::assume(len <= 3);
    let data: [u8; 3] = kani::any();
    let src = &data[..len];
    let it = src.into_con_iter();
    s_pulls(&it, len, |r: &u8| pos_in(src, r));
}

// @verif family=SEQ quick=C16 timeout=1500 owner=C16
// @bounds kind=Vec<Tracked> len<=3 (capacity 4); k<=len+1 single pulls; next_chunk(n) with n arbitrary in [0,usize::MAX-16]; 2 more single pulls; drop
#[kani::proof]
#[kani::unwind(6)]
fn bound_vec() {
    let len: usize = kani::any();
    kani::assume(len <= 3);
    let mut v = Vec::with_capacity(4);
    let mut i = 0;
    while i < len {
        v.push(Tracked(i as u8));
        i += 1;
    }
    let it = v.into_con_iter();
    s_pulls(&it, len, |t: Tracked| t.0 as usize);
}

// @verif family=SEQ quick=C16 timeout=1500 owner=C16
// @bounds kind=[Tracked;3]; k<=4 single pulls; next_chunk(n) with n arbitrary in [0,usize::MAX-16]; 2 more single pulls; drop
#[kani::proof]
#[kani::unwind(6)]
fn bound_array() {
    let it = [Tracked(0), Tracked(1), Tracked(2)].into_con_iter();
    s_pulls(&it, 3, |t: Tracked| t.0 as usize);
}

// @verif family=SEQ quick=C16 timeout=1500 owner=C16
// @bounds kind=ConIterOfIter<usize,Probe> len<=3; k<=len+1 single pulls; next_chunk(n) with n arbitrary in [0,usize::MAX-16]; 2 more single pulls
#[kani::proof]
#[kani::unwind(6)]
fn bound_iter() {
    let len: usize = kani::any();
    kani::assume(len <= 3);
    let it = Probe::new(len, 0).into_con_iter();
    s_pulls(&it, len, |v: usize| v);
}

// ------------------------------------------------------------------------------------------------
// chunk size zero must panic for buffered_iter / for_each / enumerate_for_each / fold (documented).
// The documented panic is an *expected* failed check; the tagged assertion after the call must be
// unreachable, i.e. there is no path on which the call returns.
fn zero_calls<I: ConcurrentIter>(it: &I) {
    let which: u8 = kani::any();
    kani::assume(which < 4);
    if which == 0 {
        let _b = it.buffered_iter(0);
    } else if which == 1 {
        it.for_each(0, |_x| {});
    } else if which == 2 {
        it.enumerate_for_each(0, |_i, _x| {});
    } else {
        let _ = it.fold(0, 0usize, |a, _x| a);
    }
    assert!(false, "C16: a chunk size of zero was accepted by buffered_iter/for_each/enumerate_for_each/fold");
}

// @verif family=SEQ quick=C16 timeout=1500 expectpanic=Chunk_size_must_be_positive nocover=1 owner=C16
// @bounds kinds=&[u8] (len 2), Range<usize>, ConIterOfIter<usize,Probe>; buffered_iter(0), for_each(0), enumerate_for_each(0), fold(0): every one of the 12 calls must panic with the documented message
#[kani::proof]
#[kani::unwind(5)]
fn bound_zero_panics() {
    let data = [1u8, 2];
    let kind: u8 = kani::any();
    kani::assume(kind < 3);
    if kind == 0 {
        let src: &[u8] = &data;
        zero_calls(&src.into_con_iter());
    } else if kind == 1 {
        zero_calls(&IntoConcurrentIter::into_con_iter(3usize..9));
    } else {
        zero_calls(&Probe::new(2, 0).into_con_iter());
    }
}

// ------------------------------------------------------------------------------------------------
// known finding KF-C16-wrap: the position counter is a machine word advanced by fetch_add(n); a chunk
// size close to usize::MAX wraps it and later pulls deliver positions again (and begin + n overflows).
// @verif family=SEQ quick=C16 timeout=1500
// @bounds kind=&[u8] len=3; one single pull; next_chunk(usize::MAX); two single pulls  (isolates known finding KF-C16-wrap)
#[kani::proof]
#[kani::unwind(6)]
fn kf_wrap_slice() {
    let data = [7u8, 8, 9];
    let src: &[u8] = &data;
    let it = src.into_con_iter();
    let a = it.next_id_and_value();
    assert!(a.is_some());
    kani::cover!(true, "W: reached");
    let _c = it.next_chunk(usize::MAX).map(|c| c.begin_idx);
    let x = it.next_id_and_value();
    let y = it.next_id_and_value();
    assert!(x.is_none() && y.is_none(), "C16: KF-C16-wrap: positions delivered again after a chunk size near usize::MAX wrapped the counter");
}
