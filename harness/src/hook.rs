//! Harness side of the /repo hook (`--cfg orx_concurrent_iter_verif`): implements every atomic access
//! of the crate. Memory-backed: the value lives in the shim's own cell, the access is performed with the
//! real semantics and appended to an event log; an optional environment callback runs *before* the
//! access (used by VH_ENV to interleave whole foreign pulls between the accesses of the operation under
//! test). The trace-backed mode used by TBMC lives in `tbmc.rs` and takes over when `VH_TRACE_MODE` is set.

#![allow(dead_code)]

pub const K_LOAD: u32 = 0;
pub const K_STORE: u32 = 1;
pub const K_FETCH_ADD: u32 = 2;

pub const O_RELAXED: u32 = 0;
pub const O_RELEASE: u32 = 1;
pub const O_ACQUIRE: u32 = 2;
pub const O_ACQREL: u32 = 3;
pub const O_SEQCST: u32 = 4;

#[derive(Clone, Copy)]
pub struct Ev {
    pub cell: *mut usize,
    pub kind: u32,
    pub ord: u32,
    pub operand: usize,
    pub old: usize,
    pub new: usize,
}

pub const NLOG: usize = 12;
pub const EV0: Ev = Ev { cell: core::ptr::null_mut(), kind: 9, ord: 9, operand: 0, old: 0, new: 0 };
pub static mut VH_LOG: [Ev; NLOG] = [EV0; NLOG];
pub static mut VH_NEV: usize = 0;
/// environment callback and its re-entrancy latch
pub static mut VH_ENV: Option<fn()> = None;
pub static mut VH_IN_ENV: bool = false;
/// spin detection for single-threaded histories (C09): number of consecutive loads without any write; if
/// `VH_SPIN_LIMIT > 0` and it is exceeded the running operation re-reads a memory nobody else can change
pub static mut VH_SPIN_LOADS: usize = 0;
pub static mut VH_SPIN_LIMIT: usize = 0;
/// event logging off (long histories would overflow the log)
pub static mut VH_LOG_OFF: bool = false;
/// set by tbmc.rs: accesses are answered from the guessed trace
pub static mut VH_TRACE_MODE: bool = false;

pub fn reset() {
    unsafe {
        VH_NEV = 0;
        VH_SPIN_LOADS = 0;
    }
}
pub fn count() -> usize {
    unsafe { VH_NEV }
}
pub fn ev(i: usize) -> Ev {
    unsafe { VH_LOG[i] }
}

#[no_mangle]
pub fn orx_verif_atomic(cell: *mut usize, kind: u32, ord: u32, operand: usize) -> usize {
    unsafe {
        if VH_TRACE_MODE {
            return crate::tbmc::trace_access(cell, kind, ord, operand);
        }
        if !VH_IN_ENV {
            if let Some(f) = VH_ENV {
                VH_IN_ENV = true;
                f();
                VH_IN_ENV = false;
            }
        }
        if kind == K_LOAD {
            VH_SPIN_LOADS += 1;
            if VH_SPIN_LIMIT > 0 && VH_SPIN_LOADS > VH_SPIN_LIMIT {
                assert!(
                    false,
                    "C09: a call keeps re-reading shared state that no other thread can change any more: it waits forever"
                );
                kani::assume(false);
            }
        } else {
            VH_SPIN_LOADS = 0;
        }
        let old = *cell;
        let new = if kind == K_LOAD {
            old
        } else if kind == K_STORE {
            operand
        } else {
            old.wrapping_add(operand)
        };
        *cell = new;
        if !VH_IN_ENV && !VH_LOG_OFF {
            assert!(VH_NEV < NLOG, "harness: atomic access log overflow");
            VH_LOG[VH_NEV] = Ev { cell, kind, ord, operand, old, new };
            VH_NEV += 1;
        }
        old
    }
}

/// Kani only links the hook if the harness references it.
pub fn link() {
    let _k = orx_verif_atomic as fn(*mut usize, u32, u32, usize) -> usize;
}
