//! Shared harness vocabulary: ledgers, element types, probe iterators, the reference cursor.
//!
//! Nothing here re-implements the crate: the reference cursor only says "positions are handed out
//! left to right, a chunk is `[pos, min(pos+n, len))`, after the end or a skip nothing is handed out".

#![allow(dead_code)]

/// Largest source length used by any harness (arrays index the ledgers with it).
pub const LMAX: usize = 8;

/// Number of times the destructor of element `i` ran.
pub static mut VH_DROPS: [u8; LMAX] = [0; LMAX];
/// Number of times element `i` was cloned.
pub static mut VH_CLONES: [u8; LMAX] = [0; LMAX];
/// Number of times element `i` was created by an owning probe.
pub static mut VH_CREATED: [u8; LMAX] = [0; LMAX];

/// Element with an observable destructor; `0` is its source position.
#[derive(Debug)]
pub struct Tracked(pub u8);

impl Drop for Tracked {
    fn drop(&mut self) {
        unsafe { VH_DROPS[self.0 as usize] += 1 };
    }
}

/// Element with an observable `Clone` (no destructor); `0` is its source position,
/// `1` is 0 for an original and 1 for a clone.
#[derive(Debug, PartialEq, Eq)]
pub struct Cl(pub u8, pub u8);

impl Clone for Cl {
    fn clone(&self) -> Self {
        unsafe { VH_CLONES[self.0 as usize] += 1 };
        Cl(self.0, 1)
    }
}

pub fn drops(i: usize) -> u8 {
    unsafe { VH_DROPS[i] }
}
pub fn clones(i: usize) -> u8 {
    unsafe { VH_CLONES[i] }
}
pub fn created(i: usize) -> u8 {
    unsafe { VH_CREATED[i] }
}

/// Pointer-free sequential iterator yielding its own positions `0..len`; fused.
/// `hint`: 0 exact, 1 inexact `(0, Some(rem))`, 2 unbounded `(0, None)`, 3 exact-looking but over-promising by 2
/// (size hints are not trusted in Rust: the end, once reported, must still be permanent).
#[derive(Debug, Clone)]
pub struct Probe {
    pub pos: usize,
    pub len: usize,
    pub hint: u8,
}

impl Probe {
    pub fn new(len: usize, hint: u8) -> Self {
        Self { pos: 0, len, hint }
    }
}

impl Iterator for Probe {
    type Item = usize;
    fn next(&mut self) -> Option<usize> {
        if self.pos < self.len {
            let p = self.pos;
            self.pos += 1;
            Some(p)
        } else {
            None
        }
    }
    fn size_hint(&self) -> (usize, Option<usize>) {
        let rem = self.len - self.pos;
        match self.hint {
            0 => (rem, Some(rem)),
            1 => (0, Some(rem)),
            2 => (0, None),
            _ => (rem + 2, Some(rem + 2)),
        }
    }
}

/// Owning probe: creates `Tracked(pos)` lazily, so an element that was never produced does not exist.
#[derive(Debug)]
pub struct OwningProbe {
    pub pos: usize,
    pub len: usize,
}

impl Iterator for OwningProbe {
    type Item = Tracked;
    fn next(&mut self) -> Option<Tracked> {
        if self.pos < self.len {
            let p = self.pos;
            self.pos += 1;
            unsafe { VH_CREATED[p] += 1 };
            Some(Tracked(p as u8))
        } else {
            None
        }
    }
    fn size_hint(&self) -> (usize, Option<usize>) {
        let rem = self.len - self.pos;
        (rem, Some(rem))
    }
}

/// Probe over a borrowed slice yielding references (for `cloned()` / `copied()` over the wrapper).
#[derive(Debug)]
pub struct RefProbe<'a, T> {
    pub src: &'a [T],
    pub pos: usize,
}

impl<'a, T> Iterator for RefProbe<'a, T> {
    type Item = &'a T;
    fn next(&mut self) -> Option<&'a T> {
        if self.pos < self.src.len() {
            let p = self.pos;
            self.pos += 1;
            Some(&self.src[p])
        } else {
            None
        }
    }
    fn size_hint(&self) -> (usize, Option<usize>) {
        let rem = self.src.len() - self.pos;
        (rem, Some(rem))
    }
}

/// Position of a reference inside `src` by pointer identity (not by value); `LMAX` if it does not
/// point at an element of `src`.
pub fn pos_in<T>(src: &[T], r: &T) -> usize {
    let mut k = 0;
    while k < src.len() {
        if core::ptr::eq(&src[k], r) {
            return k;
        }
        k += 1;
    }
    LMAX
}
