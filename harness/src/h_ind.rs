//! IND harnesses: ONE operation from an ARBITRARY counter state on the known-size kinds, with the
//! memory-backed hook (DESIGN.md §2 IND). For every counter value `c <= 2^62`, every source of length
//! `<= LEN`, every operation and every `n in [1, 2^20]` the harness asserts
//!  (1) the operation performs exactly one atomic access, a fetch_add(n) (AcqRel or stronger)
//!      [a store for skip_to_end, a load for try_get_len];
//!  (2) with `b` the value that access returned: the result is exactly the positions `[b, min(b+n,len))`,
//!      each with the source element at that position, begin index `b`, announced length = yielded;
//!  (3) the counter afterwards is `b + n`.
//! Together with `ind_lemma` this is the inductive step that covers all histories, thread counts and
//! interleavings of these single-RMW operations.
use crate::common::*;
use crate::hook::{self, *};
use orx_concurrent_iter::iter::atomic_iter::AtomicIter;
use orx_concurrent_iter::*;

const LEN: usize = 4;
const CMAX: usize = 1 << 62;
const NMAX: usize = 1 << 20;

static mut VH_MOVED: [u8; LMAX] = [0; LMAX];

fn take(t: Tracked) -> usize {
    let p = t.0 as usize;
    unsafe { VH_MOVED[p] += 1 };
    core::mem::forget(t);
    p
}

const I_NEXT: u8 = 0;
const I_NEXT_ID: u8 = 1;
const I_CHUNK: u8 = 2;
const I_BUF: u8 = 3;
const I_SKIP: u8 = 4;
const I_LEN: u8 = 5;

// ---- the other party: at most one complete foreign pull, at an arbitrary atomic access point of the
// operation under test (the memory-backed hook calls it before serving each access) --------------------
static mut VH_IND_IT: *const () = core::ptr::null();
static mut VH_IND_THEIRS: [u8; LMAX] = [0; LMAX];
static mut VH_IND_BUDGET: usize = 0;
static mut VH_IND_RAN: bool = false;
static mut VH_IND_BAD: bool = false;

fn theirs(p: usize) {
    unsafe {
        if p < LMAX {
            VH_IND_THEIRS[p] += 1;
        } else {
            VH_IND_BAD = true;
        }
    }
}

fn env_pull<I: ConcurrentIter>() {
    unsafe {
        if VH_IND_BUDGET == 0 || !kani::any::<bool>() {
            return;
        }
        VH_IND_BUDGET -= 1;
        VH_IND_RAN = true;
        let it = &*(VH_IND_IT as *const I);
        if kani::any() {
            if let Some(x) = it.next_id_and_value() {
                theirs(x.idx);
            }
        } else {
            let m: usize = kani::any();
            kani::assume(m >= 1 && m <= LEN + 1);
            if let Some(c) = it.next_chunk(m) {
                let b = c.begin_idx;
                let k = c.values.len();
                let mut i = 0;
                while i < LEN {
                    if i < k {
                        theirs(b + i);
                    }
                    i += 1;
                }
            }
        }
    }
}

/// METHOD-level facts (not the property itself): the reduction "every interleaving is equivalent to the
/// sequential order of the counter's modifications" needs every pull to be ONE read-modify-write. If this
/// fails the property is not decided by this harness (inconclusive) unless a property-level assertion
/// below fails too.
fn one_rmw(n: usize) -> bool {
    if hook::count() != 1 {
        return false;
    }
    let e = hook::ev(0);
    e.kind == K_FETCH_ADD && e.operand == n
}

/// `delivered[p]` counts how often position p was handed out by the operation under test.
struct Out {
    delivered: [u8; LMAX],
    none: bool,
}

fn mark(o: &mut Out, p: usize) {
    assert!(p < LMAX, "C01 C16: a position far outside the source was delivered");
    o.delivered[p] += 1;
}

fn chunk_out<T, V: ExactSizeIterator<Item = T>, F: Fn(T) -> usize>(begin_idx: usize, mut vals: V, n: usize, len: usize, f: &F, o: &mut Out) {
    let announced = vals.len();
    assert!(announced >= 1, "C03 C16: empty chunk");
    // index fidelity first: whatever else is wrong, element k must be the source element at begin_idx + k
    let mut k = 0;
    while k < LEN && k < announced {
        match vals.next() {
            None => assert!(false, "C03: chunk yielded fewer elements than announced"),
            Some(v) => {
                let p = f(v);
                assert!(p == begin_idx + k, "C02 C03: chunk element k is not the source element at begin_idx+k");
                mark(o, p);
            }
        }
        k += 1;
    }
    assert!(begin_idx < len, "C02 C05 C01: chunk delivered although its begin index is at or past the end");
    assert!(announced == n.min(len - begin_idx), "C03: chunk length must be min(n, remaining from begin_idx)");
    assert!(vals.next().is_none(), "C03: chunk yielded more elements than announced");
}

fn ctr<I>(it: &I) -> &AtomicCounter
where
    I: ConcurrentIter + AtomicIter<<I as ConcurrentIter>::Item>,
{
    <I as AtomicIter<<I as ConcurrentIter>::Item>>::counter(it)
}

/// The inductive step. Pre-state: the counter is an arbitrary `c` and (invariant) exactly the positions
/// `[0, min(c,len))` have been delivered. One symbolic operation runs while another party may perform one
/// complete pull at any of its atomic access points. Post-state `c'`: asserted
///   * `c' >= c` (monotone), and exactly the positions `[min(c,len), min(c',len))` were delivered by the two
///     parties together, each once, none below `c` (so the invariant holds again: exactly-once, gap-free);
///   * index fidelity, chunk contract, end reports only when nothing is left.
/// Returns `c`.
fn ind_step<I, F>(it: &I, len: usize, ops: u8, f: F) -> usize
where
    I: ConcurrentIter + AtomicIter<<I as ConcurrentIter>::Item>,
    <I as ConcurrentIter>::Item: Send + Sync,
    F: Fn(<I as ConcurrentIter>::Item) -> usize,
{
    hook::link();
    let c: usize = kani::any();
    kani::assume(c <= CMAX);
    ctr(it).store(c);
    let op: u8 = kani::any();
    kani::assume(op <= I_LEN);
    let n: usize = kani::any();
    kani::assume(n >= 1 && n <= NMAX);
    let mut o = Out { delivered: [0; LMAX], none: false };
    let on = |x: u8| (ops >> x) & 1 == 1 && op == x;
    unsafe {
        VH_IND_IT = it as *const I as *const ();
        VH_IND_BUDGET = 1;
        VH_ENV = Some(env_pull::<I>);
    }
    hook::reset();
    let mut is_pull = true;
    // METHOD facts are asserted last so that they never hide a property-level violation
    let mut method_ok = true;
    if on(I_NEXT) {
        let r = it.next();
        method_ok = one_rmw(1);
        match r {
            None => o.none = true,
            Some(v) => mark(&mut o, f(v)),
        }
        kani::cover!(len > 0 && c + 1 == len && !o.none, "W: last element by single pull");
        kani::cover!(c > len, "W: counter already beyond the end");
    } else if on(I_NEXT_ID) {
        let r = it.next_id_and_value();
        method_ok = one_rmw(1);
        match r {
            None => o.none = true,
            Some(x) => {
                let p = f(x.value);
                assert!(p == x.idx, "C02: element delivered with index i is not the source element at i");
                mark(&mut o, p);
            }
        }
    } else if on(I_CHUNK) {
        let r = it.next_chunk(n);
        method_ok = one_rmw(n);
        match r {
            None => o.none = true,
            Some(ch) => chunk_out(ch.begin_idx, ch.values, n, len, &f, &mut o),
        }
        kani::cover!(!o.none && c + n > len && c > 0, "W: short final chunk from the middle");
        kani::cover!(!o.none && n > LEN, "W: chunk size far beyond the length");
    } else if on(I_BUF) {
        let mut bi = it.buffered_iter(n);
        hook::reset();
        let r = bi.next();
        method_ok = one_rmw(n);
        match r {
            None => o.none = true,
            Some(ch) => chunk_out(ch.begin_idx, ch.values, n, len, &f, &mut o),
        }
        kani::cover!(!o.none && c + n > len && c > 0, "W: short final buffered chunk from the middle");
    } else if on(I_SKIP) {
        is_pull = false;
        it.skip_to_end();
        method_ok = hook::count() == 1;
        kani::cover!(c < len, "W: skipped before the end");
    } else if on(I_LEN) {
        is_pull = false;
        unsafe { VH_ENV = None };
        let l = it.try_get_len();
        method_ok = hook::count() == 1;
        assert!(hook::ev(0).kind == K_LOAD, "C11: try_get_len must not modify the counter");
        let want = if c < len { len - c } else { 0 };
        assert!(l == Some(want), "C11: try_get_len must be max(len - counter, 0)");
        let h = it.has_more();
        assert!(
            h == if want == 0 { HasMore::No } else { HasMore::Yes(want) },
            "C11: has_more must agree with try_get_len"
        );
    } else {
        is_pull = false;
    }
    unsafe { VH_ENV = None };
    hook::reset();
    let after = ctr(it).current();
    assert!(!unsafe { VH_IND_BAD }, "C01: the other party received a position far outside the source");
    if on(I_SKIP) {
        assert!(after >= len, "C06: after skip_to_end every later reservation must fall outside the source");
    }
    if is_pull || on(I_SKIP) {
        if is_pull {
            assert!(after >= c, "C04 C05: a pull must never move the position counter backwards");
        }
        // exactly the positions between the two counter states were handed out, each once
        let lo = c.min(len);
        let hi = if on(I_SKIP) { lo.max(unsafe { first_undelivered(len) }) } else { after.min(len) };
        let mut p = 0;
        while p < LEN {
            if p < len {
                let total = o.delivered[p] + unsafe { VH_IND_THEIRS[p] };
                if p >= lo && p < hi {
                    assert!(total >= 1, "C01 C04: a position the counter has passed was delivered to nobody (lost element / gap)");
                    assert!(total <= 1, "C01: a position was delivered twice (to the operation and/or a concurrent pull)");
                } else {
                    assert!(total == 0, "C01 C05: a position outside the interval the counter passed was delivered (delivered again, or beyond the cursor)");
                }
            }
            p += 1;
        }
        if is_pull && o.none {
            assert!(after >= len, "C05 C01: a pull reported the end although the cursor has not reached the end");
        }
    }
    kani::cover!(unsafe { VH_IND_RAN } && is_pull && !o.none, "W: a foreign pull was interleaved with a delivering operation");
    assert!(
        method_ok,
        "METHOD: the operation is not a single atomic read-modify-write (fetch_add of the request / one store / one load): the reduction of all interleavings to the counter's modification order, and the lock-freedom argument (C09), do not apply to this code - C01 C04 C09 are not decided by this harness"
    );
    c
}

/// After a skip the foreign pull (if it ran before the skip) delivered a prefix of the undelivered part:
/// the first position nobody received.
unsafe fn first_undelivered(len: usize) -> usize {
    let mut p = 0;
    let mut first = len;
    while p < LEN {
        if p < len && VH_IND_THEIRS[p] == 1 {
            first = p + 1;
        }
        p += 1;
    }
    if first == len && !VH_IND_RAN {
        0
    } else {
        first
    }
}

const ALL: u8 = 0b111111;

// @verif family=IND hook=1 quick=C01,C02,C03,C04,C05,C06,C09,C11 timeout=1800
// @bounds kind=&[u8] len<=4 symbolic contents; counter c in [0,2^62]; one op in {next,next_id_and_value,next_chunk(n),buffered_iter(n).next(),skip_to_end,try_get_len/has_more}; n in [1,2^20]
#[kani::proof]
#[kani::unwind(7)]
fn ind_slice() {
    let len: usize = kani::any();
    kani::assume(len <= LEN);
    let data: [u8; LEN] = kani::any();
    let src = &data[..len];
    let it = src.into_con_iter();
    ind_step(&it, len, ALL, |r: &u8| pos_in(src, r));
}

// @verif family=IND hook=1 quick=C01,C02,C03,C04,C05,C06,C09,C11 timeout=1800
// @bounds kind=Range<usize> start<=2^62 symbolic, len<=4; counter c in [0,2^62]; one op as ind_slice; n in [1,2^20]
#[kani::proof]
#[kani::unwind(7)]
fn ind_range() {
    let len: usize = kani::any();
    kani::assume(len <= LEN);
    let start: usize = kani::any();
    kani::assume(start <= CMAX);
    let it = IntoConcurrentIter::into_con_iter(start..start + len);
    ind_step(&it, len, ALL, |v: usize| v.wrapping_sub(start));
}

fn inductive_ledger(len: usize, c: usize) {
    // positions below the arbitrary pre-state counter belong to earlier pulls: this step and the final
    // drop must not touch them; all others are moved out or destroyed exactly once
    let mut i = 0;
    while i < len {
        let total = unsafe { VH_MOVED[i] } + drops(i);
        if i < c {
            assert!(total == 0, "C08: an element delivered by an earlier pull was destroyed or delivered again");
        } else {
            assert!(total == 1, "C08: an undelivered element must be moved out or destroyed exactly once");
        }
        i += 1;
    }
}

// @verif family=IND hook=1 quick=C01,C02,C03,C04,C05,C08,C09 thorough=C06,C11 timeout=1800
// @bounds kind=Vec<Tracked> len<=4 (capacity 5); counter c in [0,2^62]; one op as ind_slice; n in [1,2^20]; then drop, with the inductive drop ledger
#[kani::proof]
#[kani::unwind(7)]
fn ind_vec() {
    let len: usize = kani::any();
    kani::assume(len <= LEN);
    let mut v = Vec::with_capacity(LEN + 1);
    let mut i = 0;
    while i < len {
        v.push(Tracked(i as u8));
        i += 1;
    }
    let it = v.into_con_iter();
    let c = ind_step(&it, len, 0b001111, take);
    drop(it);
    inductive_ledger(len, c);
}

// @verif family=IND hook=1 quick=C01,C02,C03,C04,C05,C08,C09 thorough=C06,C11 timeout=1800
// @bounds kind=[Tracked;4]; counter c in [0,2^62]; one op as ind_slice; n in [1,2^20]; then drop
#[kani::proof]
#[kani::unwind(7)]
fn ind_array() {
    let a = [Tracked(0), Tracked(1), Tracked(2), Tracked(3)];
    let it = a.into_con_iter();
    let c = ind_step(&it, 4, 0b001111, take);
    drop(it);
    inductive_ledger(4, c);
}

// @verif family=IND hook=1 quick=C13,C01,C02 thorough=C03,C04,C05 timeout=1800
// @bounds kind=Cloned<ConIterOfSlice<Cl>> len<=4; counter c in [0,2^62]; one op as ind_slice; n in [1,2^20]; clone ledger
#[kani::proof]
#[kani::unwind(7)]
fn ind_cloned() {
    let len: usize = kani::any();
    kani::assume(len <= LEN);
    let data = [Cl(0, 0), Cl(1, 0), Cl(2, 0), Cl(3, 0)];
    let src = &data[..len];
    let it = src.into_con_iter().cloned();
    ind_step(&it, len, ALL, |c: Cl| {
        assert!(c.1 == 1, "C13: cloned() must deliver clones, not the originals");
        c.0 as usize
    });
    let mut i = 0;
    while i < LEN {
        assert!(clones(i) <= 1, "C13: an element was cloned more than once for one delivery");
        assert!(data[i] == Cl(i as u8, 0), "C13 C19: cloned() must not modify the source");
        i += 1;
    }
}

// @verif family=IND hook=1 quick=C13,C01,C02 thorough=C03,C04,C05 timeout=1800
// @bounds kind=Copied<ConIterOfSlice<usize>> len<=4, contents = position; counter c in [0,2^62]; one op as ind_slice; n in [1,2^20]
#[kani::proof]
#[kani::unwind(7)]
fn ind_copied() {
    let len: usize = kani::any();
    kani::assume(len <= LEN);
    let data: [usize; LEN] = [0, 1, 2, 3];
    let src = &data[..len];
    let it = src.into_con_iter().copied();
    ind_step(&it, len, ALL, |v: usize| v);
}

// @verif family=IND hook=1 quick=C01,C04,C05 timeout=1800
// @bounds pure integers: c <= 2^62, n <= 2^20+1, len arbitrary: the induction step delivered(c) ∪ [c, min(c+n,len)) = delivered(c+n), disjoint, no wrap
#[kani::proof]
fn ind_lemma() {
    let c: usize = kani::any();
    let n: usize = kani::any();
    let len: usize = kani::any();
    kani::assume(c <= CMAX + NMAX && n >= 1 && n <= NMAX);
    // delivered prefix before: [0, min(c,len)); interval handed out by the step: [c, min(c+n,len)) if c < len
    let before = c.min(len);
    let lo = c;
    let hi = (c + n).min(len).max(c);
    let after = (c + n).min(len);
    kani::cover!(c < len && c + n > len, "W: the step crosses the end");
    assert!(c + n > c, "C01: no wrap of the counter below the stated bound");
    assert!(hi - lo == after - before, "C01 C04: the step extends the delivered prefix by exactly the interval");
    assert!(lo >= before, "C01: the interval is disjoint from everything delivered earlier");
    assert!(lo == before || hi == lo, "C04: the interval is adjacent to the delivered prefix (gap-free) or empty");
    assert!(c < len || hi == lo, "C05: at or past the end nothing is handed out");
    assert!(c + n >= len || after < len, "C05");
}
