//! TBMC harnesses: two threads operate on one `ConIterOfIter<usize, TProbe>`; the interleaving, the
//! number of spin iterations, the chunk sizes and the source length are solver variables.
//! All property assertions are evaluated after both threads ran and every guessed event was consumed
//! by real code, i.e. on real executions only (DESIGN.md §2 TBMC, soundness notes).
use crate::tbmc::{self, *};
use orx_concurrent_iter::*;

pub const P_SINGLE: u8 = 0;
pub const P_CHUNK: u8 = 1;
pub const P_BUF: u8 = 2;
pub const P_SKIP: u8 = 3;
pub const P_LEN: u8 = 4;
pub const P_NEXT: u8 = 5;
pub const P_FE1: u8 = 6;
pub const P_FE2: u8 = 7;
const NP: u8 = 8;

pub const B_SINGLE: u8 = 1 << P_SINGLE;
pub const B_CHUNK: u8 = 1 << P_CHUNK;
pub const B_BUF: u8 = 1 << P_BUF;
pub const B_SKIP: u8 = 1 << P_SKIP;
pub const B_LEN: u8 = 1 << P_LEN;
pub const B_NEXT: u8 = 1 << P_NEXT;
pub const B_FE1: u8 = 1 << P_FE1;
pub const B_FE2: u8 = 1 << P_FE2;

const OPS: usize = 2;
/// chunk size of buffered pulls (concrete)
const BUFN: usize = 2;
const CH: usize = 3;

#[derive(Clone, Copy)]
struct Res {
    used: bool,
    kind: u8,
    n: usize,
    some: bool,
    begin: usize,
    count: usize,
    /// first / last timestamp of the operation's events
    first: usize,
    last: usize,
    /// try_get_len answer: 0 = None, k+1 = Some(k)
    lenq: usize,
    no: bool,
    /// facts observed while the operation ran; asserted only after every thread has run
    bad_idx: bool,
    bad_seq: bool,
    bad_len: bool,
    bad_more: bool,
    /// for_each: bit p set = position p was visited; `twice` = some position was visited twice by this call
    vis: u8,
    twice: bool,
}

const R0: Res = Res { used: false, kind: 0, n: 0, some: false, begin: 0, count: 0, first: 0, last: 0, lenq: 0, no: false, bad_idx: false, bad_seq: false, bad_len: false, bad_more: false, vis: 0, twice: false };

fn do_op<P: Iterator<Item = usize>>(it: &ConIterOfIter<usize, P>, mask: u8, nmax: usize, len: usize) -> Res {
    let op: u8 = kani::any();
    kani::assume(op < NP);
    kani::assume((mask >> op) & 1 == 1);
    let n: usize = kani::any();
    kani::assume(n >= 1 && n <= nmax);
    op_with(it, mask, op, n, len)
}

/// Repeats an operation of the first pass with the same choices.
fn redo_op<P: Iterator<Item = usize>>(it: &ConIterOfIter<usize, P>, first: &Res, mask: u8) -> Res {
    op_with(it, mask, first.kind, first.n, 0)
}

fn op_with<P: Iterator<Item = usize>>(it: &ConIterOfIter<usize, P>, mask: u8, op: u8, n: usize, len: usize) -> Res {
    let mut r = R0;
    r.used = true;
    r.kind = op;
    r.first = tbmc::now();
    let on = |x: u8| (mask >> x) & 1 == 1 && op == x;
    if on(P_SINGLE) {
        r.n = 1;
        match it.next_id_and_value() {
            None => {}
            Some(x) => {
                r.some = true;
                r.begin = x.idx;
                r.count = 1;
                r.bad_idx = x.value != x.idx;
            }
        }
    } else if on(P_NEXT) {
        r.n = 1;
        match it.next() {
            None => {}
            Some(v) => {
                r.some = true;
                r.begin = v;
                r.count = 1;
            }
        }
    } else if on(P_CHUNK) {
        r.n = n;
        match it.next_chunk(n) {
            None => {}
            Some(c) => {
                r.some = true;
                r.begin = c.begin_idx;
                let mut vals = c.values;
                r.count = vals.len();
                r.bad_len = !(r.count >= 1 && r.count <= n);
                let mut k = 0;
                while k < CH {
                    if k < r.count {
                        let v = vals.next();
                        if v != Some(r.begin.wrapping_add(k)) {
                            r.bad_seq = true;
                        }
                    }
                    k += 1;
                }
                r.bad_more = r.count <= CH && vals.next().is_some();
                core::mem::forget(vals);
            }
        }
    } else if on(P_BUF) {
        // concrete chunk size: a symbolic one makes the wrapper's buffer allocation symbolic
        let n: usize = BUFN;
        r.n = n;
        let mut b = it.buffered_iter(n);
        match b.next() {
            None => {}
            Some(c) => {
                r.some = true;
                r.begin = c.begin_idx;
                let mut vals = c.values;
                r.count = vals.len();
                r.bad_len = !(r.count >= 1 && r.count <= n);
                let mut k = 0;
                while k < CH {
                    if k < r.count {
                        let v = vals.next();
                        if v != Some(r.begin.wrapping_add(k)) {
                            r.bad_seq = true;
                        }
                    }
                    k += 1;
                }
                r.bad_more = r.count <= CH && vals.next().is_some();
            }
        }
        core::mem::forget(b);
    } else if on(P_FE1) || on(P_FE2) {
        let chunk = if op == P_FE1 { 1 } else { BUFN };
        r.n = chunk;
        let mut vis = 0u8;
        let mut twice = false;
        it.enumerate_for_each(chunk, |i, v| {
            if i != v {
                r.bad_idx = true;
            }
            if v < 8 {
                if vis & (1 << v) != 0 {
                    twice = true;
                }
                vis |= 1 << v;
            } else {
                r.bad_idx = true;
            }
        });
        r.vis = vis;
        r.twice = twice;
    } else if on(P_SKIP) {
        it.skip_to_end();
    } else if on(P_LEN) {
        // one query only (has_more is derived from try_get_len): keeps the event budget small
        let h = it.has_more();
        r.lenq = match h {
            HasMore::Maybe => 0,
            HasMore::No => 1,
            HasMore::Yes(k) => k + 1,
        };
        r.no = h == HasMore::No;
        let _ = len;
    }
    r.last = tbmc::last();
    r
}

fn is_pull(k: u8) -> bool {
    k == P_SINGLE || k == P_CHUNK || k == P_BUF || k == P_NEXT
}
fn is_loop(k: u8) -> bool {
    k == P_FE1 || k == P_FE2
}

/// Runs the operations of thread `t` on its own iterator object. First pass: symbolic choices;
/// second pass (`redo`): the choices recorded in `res` are repeated.
fn thread_run<P: Iterator<Item = usize>>(
    t: usize,
    solo: bool,
    it: &ConIterOfIter<usize, P>,
    mask: u8,
    nops: usize,
    nmax: usize,
    len: usize,
    res: &mut [Res; OPS],
    redo: bool,
) {
    tbmc::start_thread(t, solo, it);
    let mut o = 0;
    while o < OPS {
        if o < nops {
            tbmc::start_op(o as u8);
            if redo {
                let r = redo_op(it, &res[o], mask);
                assert!(
                    r.some == res[o].some && r.begin == res[o].begin && r.count == res[o].count,
                    "harness: the second pass of a thread must repeat the first"
                );
            } else {
                res[o] = do_op(it, mask, nmax, len);
            }
        }
        o += 1;
    }
    tbmc::end_thread(t);
}

fn run2(mask: [u8; 2], nops: [usize; 2], lmax: usize, nmax: usize, hb: bool) {
    run_n([mask[0], mask[1], 0, 0], [nops[0], nops[1], 0, 0], 2, lmax, nmax, hb);
}

/// `nt` threads (2..=4); thread t performs `nops[t]` operations drawn from `mask[t]`.
fn run_n(mask: [u8; 4], nops: [usize; 4], nt: usize, lmax: usize, nmax: usize, hb: bool) {
    crate::hook::link();
    let len: usize = kani::any();
    kani::assume(len <= lmax);
    let hint: u8 = kani::any();
    kani::assume(hint < 3);
    // one iterator object per run of a thread (identical layout; in trace mode nothing is shared through
    // the objects): the crate code is monomorphised separately for each, see tbmc::TProbeA*/B/C*
    let a0 = TProbeA0 { len, hint }.into_con_iter();
    let a1 = TProbeA1 { len, hint }.into_con_iter();
    let a2 = TProbeA2 { len, hint }.into_con_iter();
    let b = TProbeB { len, hint }.into_con_iter();
    let c0 = TProbeC0 { len, hint }.into_con_iter();
    let c1 = TProbeC1 { len, hint }.into_con_iter();
    let c2 = TProbeC2 { len, hint }.into_con_iter();
    tbmc::guess_and_validate(len, hb, nt);
    let mut res = [[R0; OPS]; 4];
    let last = nt - 1;
    // pass 1: the in-crate checks of the non-last threads are not believed (ignorefn=TProbeA): they run
    // against a guess the later threads have not accepted yet
    if last > 0 {
        thread_run(0, false, &a0, mask[0], nops[0], nmax, len, &mut res[0], false);
    }
    if last > 1 {
        thread_run(1, false, &a1, mask[1], nops[1], nmax, len, &mut res[1], false);
    }
    if last > 2 {
        thread_run(2, false, &a2, mask[2], nops[2], nmax, len, &mut res[2], false);
    }
    // the last thread may continue on its own after the trace; everything it meets has been accepted
    thread_run(last, true, &b, mask[last], nops[last], nmax, len, &mut res[last], false);
    // pass 2: the other threads again, on the now fully accepted trace: their in-crate checks are exact
    if last > 0 {
        thread_run(0, false, &c0, mask[0], nops[0], nmax, len, &mut res[0], true);
    }
    if last > 1 {
        thread_run(1, false, &c1, mask[1], nops[1], nmax, len, &mut res[1], true);
    }
    if last > 2 {
        thread_run(2, false, &c2, mask[2], nops[2], nmax, len, &mut res[2], true);
    }
    tbmc::finish();
    core::mem::forget((a0, a1, a2, b, c0, c1, c2));

    // ---- everything below is about a real execution --------------------------------------------
    let skip_used = (mask[0] | mask[1] | mask[2] | mask[3]) & B_SKIP != 0;
    let mut deliv = [0u8; 8];
    let mut any_none = false;
    let mut t = 0;
    while t < nt {
        let mut o = 0;
        while o < OPS {
            let r = res[t][o];
            if r.used && is_pull(r.kind) {
                assert!(!r.bad_idx, "C02: element delivered with index i is not the source element at position i");
                assert!(!r.bad_seq, "C02 C03: chunk element k is not the source element at begin_idx + k");
                assert!(!r.bad_len, "C03: a chunk must be non-empty and at most n long");
                assert!(!r.bad_more, "C03: a chunk yields more elements than it announced");
                if r.some {
                    assert!(r.begin.checked_add(r.count).map_or(false, |e| e <= len), "C01 C03: a position beyond the source was delivered");
                    if r.kind == P_CHUNK || r.kind == P_BUF {
                        assert!(
                            r.count == r.n || r.begin + r.count == len,
                            "C03: a chunk is short although it does not end at the last element"
                        );
                    }
                    let mut k = 0;
                    while k < CH {
                        if k < r.count {
                            deliv[r.begin + k] += 1;
                        }
                        k += 1;
                    }
                } else {
                    any_none = true;
                }
            }
            if r.used && is_loop(r.kind) {
                assert!(!r.bad_idx, "C12 C02: enumerate_for_each passed an index that is not the element's position");
                assert!(!r.twice, "C12 C01: for_each visited a position twice");
                let mut p = 0;
                while p < 8 {
                    if r.vis & (1 << p) != 0 {
                        assert!(p < len, "C12 C01: for_each visited a position beyond the source");
                        deliv[p] += 1;
                    }
                    p += 1;
                }
                // the loop only returns after a pull reported the end
                any_none = true;
            }
            o += 1;
        }
        t += 1;
    }
    let mut p = 0;
    while p < lmax {
        if p < len {
            assert!(deliv[p] <= 1, "C01: a position was delivered twice");
            if p > 0 && deliv[p] == 1 {
                assert!(deliv[p - 1] == 1, "C04 C01: at quiescence the delivered positions are not a gap-free prefix");
            }
            if any_none && !skip_used {
                assert!(deliv[p] == 1, "C01: a thread observed the end although a position was never delivered");
            }
        }
        p += 1;
    }
    // pairwise real-time order
    let mut ta = 0;
    while ta < nt {
        let mut oa = 0;
        while oa < OPS {
            let a = res[ta][oa];
            let mut tb = 0;
            while tb < nt {
                let mut ob = 0;
                while ob < OPS {
                    let b = res[tb][ob];
                    if a.used && b.used && a.last < b.first {
                        if is_pull(a.kind) && is_pull(b.kind) {
                            if a.some && b.some {
                                assert!(
                                    a.begin.saturating_add(a.count) <= b.begin,
                                    "C04: a pull that returned before another started received larger positions"
                                );
                            }
                            if !a.some && !skip_used {
                                assert!(!b.some, "C05: a pull delivered after an earlier pull had reported the end");
                            }
                        }
                        if a.kind == P_SKIP && is_pull(b.kind) {
                            assert!(!b.some, "C06: a pull that started after skip_to_end returned delivered an element");
                        }
                        if a.kind == P_SKIP && b.kind == P_LEN {
                            assert!(b.no && b.lenq == 1, "C06 C11: has_more must be No after skip_to_end returned");
                        }
                        if a.kind == P_LEN && a.no && is_pull(b.kind) {
                            assert!(!b.some, "C11: a pull delivered after has_more answered No");
                        }
                        if a.kind == P_LEN && a.lenq == 1 && is_pull(b.kind) {
                            assert!(!b.some, "C11: a pull delivered after try_get_len answered Some(0)");
                        }
                        if a.kind == P_LEN && b.kind == P_LEN && a.lenq > 0 && b.lenq > 0 {
                            assert!(b.lenq <= a.lenq, "C11: a reported length increased");
                        }
                        if is_pull(a.kind) && !a.some && (a.kind == P_SINGLE || a.kind == P_NEXT || a.kind == P_CHUNK) && b.kind == P_LEN {
                            assert!(b.no, "C11 C05: has_more must be No after a single or one-shot chunk pull reported the end");
                        }
                    }
                    ob += 1;
                }
                tb += 1;
            }
            oa += 1;
        }
        ta += 1;
    }
    // exact-size answers: Some(k) is an upper bound for later deliveries and exact when nothing is in flight
    if hb {
    let (race, overlap) = tbmc::iter_race();
    assert!(!race, "C07: two uses of the wrapped iterator by different threads are not ordered by happens-before (data race)");
    assert!(!overlap, "C07: the wrapped iterator was used by another thread inside a ticket holder's critical section");
    }

    // witnesses
    kani::cover!(res[1][0].used && res[0][0].first < res[1][0].first && res[1][0].first < res[0][0].last, "W: the operations overlap in time");
    kani::cover!(tbmc::waited(), "W: a thread had to wait for an earlier ticket");
    kani::cover!(res[0][0].some && res[1][0].some, "W: both threads received elements");
}

const U: usize = 12;

// @verif family=TBMC hook=1 ignorefn=TProbeA quick=C01,C02,C04,C05,C09 timeout=2400 mem=40
// @bounds kind=ConIterOfIter<usize,TProbe*> len<=2, all size hints; 2 threads x 1 next_id_and_value(); <=7 events per thread in the guessed trace + solo continuation of the last thread; all interleavings
#[kani::proof]
#[kani::unwind(12)]
fn t2_single_single() {
    run2([B_SINGLE, B_SINGLE], [1, 1], 2, 2, false);
}

// @verif family=TBMC hook=1 ignorefn=TProbeA quick=C07 timeout=2400 mem=40
// @bounds kind=ConIterOfIter<usize,TProbe*> len<=2; 2 threads x 1 next_id_and_value(); <=7 events per thread + solo continuation; happens-before from the recorded memory orderings (vector clocks), ticket exclusivity
#[kani::proof]
#[kani::unwind(12)]
fn t2_hb_single_single() {
    run2([B_SINGLE, B_SINGLE], [1, 1], 2, 2, true);
}

// @verif family=TBMC hook=1 ignorefn=TProbeA quick=C05,C04 thorough=C01 timeout=2400 mem=40 optcov=both
// @bounds kind=ConIterOfIter<usize,TProbe*> len<=1; thread 0: 1 x next_id_and_value(), thread 1 (last; continues on its own after the trace): 2 x next_id_and_value() (pulls after the end was reported); <=7 guessed events per thread; all interleavings
#[kani::proof]
#[kani::unwind(12)]
fn t2_single_single2() {
    run2([B_SINGLE, B_SINGLE], [1, 2], 1, 2, false);
}

// @verif family=TBMC hook=1 ignorefn=TProbeA quick=C06 thorough=C09 timeout=2400 mem=40 optcov=both|wait
// @bounds kind=ConIterOfIter<usize,TProbe*> len<=2; thread 0: skip_to_end then has_more/try_get_len, thread 1: 2 x next_id_and_value(); <=7 events per thread + solo continuation; all interleavings
#[kani::proof]
#[kani::unwind(12)]
fn t2_skip_single() {
    run2([B_SKIP | B_LEN, B_SINGLE], [2, 2], 2, 2, false);
}

// @verif family=TBMC hook=1 ignorefn=TProbeA quick=C11 thorough=C05 timeout=2400 mem=40 optcov=both|wait
// @bounds kind=ConIterOfIter<usize,TProbe*> len<=2, all size hints; thread 0: 2 x has_more/try_get_len, thread 1: 2 x next_id_and_value(); <=7 events per thread + solo continuation; all interleavings
#[kani::proof]
#[kani::unwind(12)]
fn t2_len_single() {
    run2([B_LEN, B_SINGLE], [2, 2], 2, 2, false);
}

// @verif family=TBMC hook=1 ignorefn=TProbeA quick=C03 thorough=C02,C04 timeout=2400 mem=40
// @bounds kind=ConIterOfIter<usize,TProbe*> len<=2; thread 0: buffered_iter(2).next(), thread 1: next_id_and_value(); <=7 events per thread + solo continuation; all interleavings
#[kani::proof]
#[kani::unwind(12)]
fn t2_buf_single() {
    run2([B_BUF, B_SINGLE], [1, 1], 2, 2, false);
}

// @verif family=TBMC hook=1 ignorefn=TProbeA thorough=C09,C03,C02 timeout=2400 mem=40
// @bounds kind=ConIterOfIter<usize,TProbe*> len<=2; thread 0: next_id_and_value(), thread 1: buffered_iter(2).next() (the chunk pull is the last thread: hang detection applies to it); <=7 events per thread + solo; all interleavings
#[kani::proof]
#[kani::unwind(12)]
fn t2_single_buf() {
    run2([B_SINGLE, B_BUF], [1, 1], 2, 2, false);
}

// @verif family=TBMC hook=1 ignorefn=TProbeA thorough=C03,C01 timeout=2400 mem=40
// @bounds kind=ConIterOfIter<usize,TProbe*> len<=2; thread 0: next_chunk(n<=2) (allocates), thread 1: next_id_and_value(); <=7 events per thread + solo; all interleavings
#[kani::proof]
#[kani::unwind(12)]
fn t2_chunk_single() {
    run2([B_CHUNK, B_SINGLE], [1, 1], 2, 2, false);
}

// @verif family=TBMC hook=1 ignorefn=TProbeA thorough=C07 timeout=2400 mem=40
// @bounds kind=ConIterOfIter<usize,TProbe*> len<=2; thread 0: buffered_iter(2).next(), thread 1: next_id_and_value(); happens-before and exclusivity (a chunk pull uses the iterator several times inside one critical section); <=7 events per thread + solo
#[kani::proof]
#[kani::unwind(12)]
fn t2_hb_buf_single() {
    run2([B_BUF, B_SINGLE], [1, 1], 2, 2, true);
}

// @verif family=TBMC hook=1 ignorefn=TProbeA thorough=C07 timeout=2400 mem=40
// @bounds kind=ConIterOfIter<usize,TProbe*> len<=2; thread 0: next_id_and_value(), thread 1: buffered_iter(2).next(); happens-before and exclusivity; <=7 events per thread + solo
#[kani::proof]
#[kani::unwind(12)]
fn t2_hb_single_buf() {
    run2([B_SINGLE, B_BUF], [1, 1], 2, 2, true);
}

// NOT REGISTERED (no `@verif` line; it found the skip_to_end window on the unrepaired tree in 47 min, fix 925e7a7,
// but has never completed on the repaired tree within the time available): family=TBMC hook=1 ignorefn=TProbeA thorough=C07 timeout=7200 mem=48 optcov=both weight=6
// @bounds kind=ConIterOfIter<usize,TProbe*> len<=2; FOUR threads: next_id_and_value() | skip_to_end() | next_id_and_value() | next_id_and_value(); <=7 events per thread + solo continuation of the last; happens-before, exclusivity, exactly-once, index fidelity (the window between the two stores of skip_to_end)
#[kani::proof]
#[kani::unwind(12)]
fn t4_single_skip_single_single() {
    run_n([B_SINGLE, B_SKIP, B_SINGLE, B_SINGLE], [1, 1, 1, 1], 4, 2, 2, true);
}

// @verif family=TBMC hook=1 ignorefn=TProbeA thorough=C01,C09 timeout=5400 mem=48 weight=6
// @bounds kind=ConIterOfIter<usize,TProbe*> len<=2; THREE threads x 1 next_id_and_value(); <=7 events per thread + solo continuation of the last; all interleavings
#[kani::proof]
#[kani::unwind(12)]
fn t3_single_single_single() {
    run_n([B_SINGLE, B_SINGLE, B_SINGLE, 0], [1, 1, 1, 0], 3, 2, 2, false);
}

// @verif family=TBMC hook=1 ignorefn=TProbeA thorough=C06 timeout=5400 mem=48 optcov=both|wait
// @bounds kind=ConIterOfIter<usize,TProbe*> len<=2; thread 0: next_id_and_value(), thread 1 (last): skip_to_end then has_more; <=7 guessed events per thread + solo; all interleavings
#[kani::proof]
#[kani::unwind(12)]
fn t2_single_skip() {
    run2([B_SINGLE, B_SKIP | B_LEN], [1, 2], 2, 2, false);
}

// @verif family=TBMC hook=1 ignorefn=TProbeA thorough=C06 timeout=7200 mem=40 optcov=both|wait
// @bounds kind=ConIterOfIter<usize,TProbe*> len<=1; thread 0: next_chunk(n<=2) (a short or empty chunk, in flight while the other thread skips); thread 1 (last): skip_to_end then has_more; <=7 guessed events per thread + solo; all interleavings
#[kani::proof]
#[kani::unwind(12)]
fn t2_chunk_skip() {
    run2([B_CHUNK, B_SKIP | B_LEN], [1, 2], 1, 2, false);
}

// NOTE: TBMC harnesses with enumerate_for_each on the wrapper (one thread looping until the end while another
// pulls) were tried with chunk sizes 1 and 2: CBMC needed > 24 GB after 25 min (and > 16 GB for chunk size 2 even
// sequentially). They are not registered; the for_each loop on the wrapper under interleavings is therefore
// covered only through its constituent pulls (t2_* harnesses) and sequentially (iter_loops).
