//! More SEQ-style harnesses without the hook: cloned()/copied() transparency (C13), leak checks (C15,
//! run with CBMC's --memory-leak-check), independent iterators over one collection (C19).
use crate::common::*;
use crate::seq::*;
use orx_concurrent_iter::*;

static mut VH_CONSUMED: [u8; LMAX] = [0; LMAX];
static mut VH_MOVED2: [u8; LMAX] = [0; LMAX];

fn any_len(lmax: usize) -> usize {
    let len: usize = kani::any();
    kani::assume(len <= lmax);
    len
}

fn info(len: usize, ends: u8) -> KindInfo {
    KindInfo { len, sized: true, nmax: len + 2, ops: 0, ends, nbuf: 0, lying: false }
}

const S_CHUNK: &[u16] = &[M_CHUNK, M_SINGLE | M_LEN];
const S_BUF: &[u16] = &[M_BUF, M_SINGLE | M_LEN];
const S_SKIP: &[u16] = &[M_SKIP, M_PULLS, M_SINGLE | M_LEN];
/// longer free-form histories (thorough tier)
const S_LONG: &[u16] = &[M_PULLS, M_PULLS | M_LEN | M_SKIP, M_SINGLE | M_CHUNK | M_LEN];
/// histories in which possibly nothing at all is pulled
const S_IDLE: &[u16] = &[M_LEN | M_SINGLE, M_LEN | M_CHUNK];

fn wit(m: &Model) {
    kani::cover!(m.w_partial, "W: a chunk was only partly consumed");
    kani::cover!(m.pos == m.len && m.len > 1, "W: exactly exhausted");
}
fn wit_some(m: &Model) {
    kani::cover!(m.pos > 0, "W: something was delivered");
}
fn wit_skip(m: &Model) {
    kani::cover!(m.w_after_skip, "W: a pull after skip_to_end happened");
}

// ------------------------------------------------------------------------------------------------
// C13: the adaptors against the same reference cursor as the underlying iterator + clone ledger
fn cl_src() -> [Cl; 4] {
    [Cl(0, 0), Cl(1, 0), Cl(2, 0), Cl(3, 0)]
}

fn take_clone(c: Cl) -> usize {
    assert!(c.1 == 1, "C13: cloned() must deliver clones, never the originals");
    let p = c.0 as usize;
    unsafe { VH_CONSUMED[p] += 1 };
    p
}

fn clone_ledger(data: &[Cl; 4]) {
    let mut i = 0;
    while i < 4 {
        assert!(
            clones(i) == unsafe { VH_CONSUMED[i] },
            "C13: exactly one clone per element handed to the caller and none otherwise"
        );
        assert!(data[i] == Cl(i as u8, 0), "C13 C19: the adaptor must not modify or move the source elements");
        i += 1;
    }
}

fn go_cloned(script: &[u16], w: fn(&Model)) {
    let len = any_len(3);
    let data = cl_src();
    let src = &data[..len];
    let m = run(src.into_con_iter().cloned(), info(len, 0b111), 3, script, take_clone);
    clone_ledger(&data);
    w(&m);
}

// @verif family=SEQ thorough=C13,C06 timeout=3600 mem=24
// @bounds kind=Cloned<ConIterOfSlice<Cl>> len<=3; prefix<=3 next(); any pull (single / chunk n<=len+2 / buffered x2); any pull or len query or skip_to_end; single/chunk/len; end in {drop, into_seq_iter all/partly}; clone ledger, source unchanged
#[kani::proof]
#[kani::unwind(7)]
fn cloned_long() {
    go_cloned(S_LONG, wit_some);
}

// @verif family=SEQ quick=C13 thorough=C03,C10 timeout=1500 owner=C13
// @bounds kind=Cloned<ConIterOfSlice<Cl>> len<=3; prefix<=3 next(); next_chunk(n<=len+2) consuming j; single/len query; end in {drop, into_seq_iter all/partly}; clone ledger, source unchanged
#[kani::proof]
#[kani::unwind(7)]
fn cloned_chunk() {
    go_cloned(S_CHUNK, wit);
}

// @verif family=SEQ quick=C13 thorough=C03,C10 timeout=1500 owner=C13
// @bounds kind=Cloned<ConIterOfSlice<Cl>> len<=3; prefix<=3 next(); buffered_iter(n<=len+2) 1-2 pulls partly consumed; single/len query; end in {drop, into_seq_iter all/partly}; clone ledger
#[kani::proof]
#[kani::unwind(7)]
fn cloned_buf() {
    go_cloned(S_BUF, wit);
}

// @verif family=SEQ quick=C13 thorough=C06 timeout=1500 owner=C13
// @bounds kind=Cloned<ConIterOfSlice<Cl>> len<=3; prefix<=3 next(); skip_to_end; any pull; single/len query; end in {drop, into_seq_iter all/partly}
#[kani::proof]
#[kani::unwind(7)]
fn cloned_skip() {
    go_cloned(S_SKIP, wit_skip);
}

fn go_copied(script: &[u16], w: fn(&Model)) {
    let len = any_len(3);
    let data: [usize; 4] = [0, 1, 2, 3];
    let src = &data[..len];
    let m = run(src.into_con_iter().copied(), info(len, 0b111), 3, script, |v: usize| v);
    assert!(data[0] == 0 && data[1] == 1 && data[2] == 2 && data[3] == 3, "C13 C19: copied() must not modify the source");
    w(&m);
}

// @verif family=SEQ quick=C13 thorough=C03,C10 timeout=1500 owner=C13
// @bounds kind=Copied<ConIterOfSlice<usize>> len<=3 (contents = position); prefix<=3 next(); next_chunk(n<=len+2) consuming j; single/len query; end in {drop, into_seq_iter all/partly}
#[kani::proof]
#[kani::unwind(7)]
fn copied_chunk() {
    go_copied(S_CHUNK, wit);
}

// @verif family=SEQ thorough=C13,C03 timeout=1500 owner=C13
// @bounds kind=Copied<ConIterOfSlice<usize>> len<=3; prefix<=3 next(); buffered_iter(n<=len+2) 1-2 pulls partly consumed; single/len query; end in {drop, into_seq_iter all/partly}
#[kani::proof]
#[kani::unwind(7)]
fn copied_buf() {
    go_copied(S_BUF, wit);
}

// @verif family=SEQ quick=C13 thorough=C01,C02 timeout=1500 owner=C13
// @bounds kind=Cloned<ConIterOfIter<&Cl,RefProbe>> (wrapper over an iterator of references) len<=3; prefix<=3 next(); next_chunk(n<=len+2) consuming j; single/len query; end in {drop, into_seq_iter all/partly}; clone ledger
#[kani::proof]
#[kani::unwind(7)]
fn cloned_iter_chunk() {
    let len = any_len(3);
    let data = cl_src();
    let it = RefProbe { src: &data[..len], pos: 0 }.into_con_iter().cloned();
    let m = run(it, info(len, 0b111), 3, S_CHUNK, take_clone);
    clone_ledger(&data);
    wit(&m);
}

fn take_copy(v: &usize) -> usize {
    *v
}

// @verif family=SEQ quick=C13 thorough=C03,C05 timeout=1500 owner=C13
// @bounds kind=Copied<ConIterOfIter<&usize,RefProbe>> (copied() over the wrapper of an iterator of references) len<=2; prefix<=3 next() (so the end may already have been reported); buffered_iter(2) 1-2 pulls partly consumed; single/len query; end in {drop, into_seq_iter all/partly}
#[kani::proof]
#[kani::unwind(7)]
fn copied_iter_buf() {
    let len = any_len(2);
    let data: [usize; 2] = [0, 1];
    let it = RefProbe { src: &data[..len], pos: 0 }.into_con_iter().copied();
    let m = run(it, KindInfo { nbuf: 2, nmax: 2, ..info(len, 0b111) }, 3, S_BUF, |v: usize| v);
    kani::cover!(m.w_past_end, "W: a buffered pull after the end was reported");
    kani::cover!(m.w_second_buffered && m.pos == m.len && m.len > 0, "W: second buffered pull, exhausted");
    let _ = take_copy;
}

// @verif family=SEQ quick=C13 thorough=C03,C05 timeout=1500 owner=C13
// @bounds kind=Cloned<ConIterOfIter<&Cl,RefProbe>> len<=2; prefix<=3 next(); buffered_iter(2) 1-2 pulls partly consumed; single/len query; end in {drop, into_seq_iter all/partly}; clone ledger
#[kani::proof]
#[kani::unwind(7)]
fn cloned_iter_buf() {
    let len = any_len(2);
    let data = cl_src();
    let it = RefProbe { src: &data[..len], pos: 0 }.into_con_iter().cloned();
    let m = run(it, KindInfo { nbuf: 2, nmax: 2, ..info(len, 0b111) }, 3, S_BUF, take_clone);
    clone_ledger(&data);
    kani::cover!(m.w_past_end, "W: a buffered pull after the end was reported");
}

// @verif family=SEQ quick=C13 thorough=C06 timeout=1500 owner=C13
// @bounds kind=Copied<ConIterOfIter<&usize,RefProbe>> len<=2; prefix<=2 next(); skip_to_end; any pull (single, chunk, buffered(2) x2); single/len query; end in {drop, into_seq_iter all/partly}
#[kani::proof]
#[kani::unwind(7)]
fn copied_iter_skip() {
    let len = any_len(2);
    let data: [usize; 2] = [0, 1];
    let it = RefProbe { src: &data[..len], pos: 0 }.into_con_iter().copied();
    let m = run(it, KindInfo { nbuf: 2, ..info(len, 0b111) }, 2, S_SKIP, |v: usize| v);
    wit_skip(&m);
}

// ------------------------------------------------------------------------------------------------
// C15: the same histories under CBMC's --memory-leak-check: every malloc'ed object is freed at exit
fn take(t: Tracked) -> usize {
    let p = t.0 as usize;
    unsafe { VH_MOVED2[p] += 1 };
    core::mem::forget(t);
    p
}

fn mkvec(len: usize, cap: usize) -> Vec<Tracked> {
    let mut v = Vec::with_capacity(cap);
    let mut i = 0;
    while i < len {
        v.push(Tracked(i as u8));
        i += 1;
    }
    v
}

// @verif family=SEQ leak=1 quick=C15 timeout=1500 owner=C15
// @bounds kind=Vec<Tracked> len<=3 capacity 4; prefix<=3 next(); next_chunk(n<=len+2) consuming j; single/len query; end in {drop, into_seq_iter all/partly}; CBMC memory-leak check at exit
#[kani::proof]
#[kani::unwind(7)]
fn leak_vec_chunk() {
    let len = any_len(3);
    let m = run(mkvec(len, 4).into_con_iter(), info(len, 0b111), 3, S_CHUNK, take);
    wit(&m);
}

// @verif family=SEQ leak=1 quick=C15 timeout=1500 owner=C15
// @bounds kind=Vec<Tracked> len=capacity=3; prefix<=3 next(); buffered_iter(n<=5) 1-2 pulls partly consumed; single/len query; end in {drop, into_seq_iter all/partly}; CBMC memory-leak check
#[kani::proof]
#[kani::unwind(7)]
fn leak_vec3_buf() {
    let m = run(mkvec(3, 3).into_con_iter(), info(3, 0b111), 3, S_BUF, take);
    wit(&m);
}

// @verif family=SEQ leak=1 quick=C15 timeout=1500 owner=C15
// @bounds kind=Vec<Tracked> len<=3 capacity 4; prefix<=1 next(); then a len query or a single pull; then a len query or next_chunk(n<=len+2) -- includes histories in which NOTHING is pulled; end in {drop, into_seq_iter all/partly}; CBMC memory-leak check
#[kani::proof]
#[kani::unwind(7)]
fn leak_vec_idle() {
    let len = any_len(3);
    let m = run(mkvec(len, 4).into_con_iter(), info(len, 0b111), 1, S_IDLE, take);
    kani::cover!(m.pos == 0 && m.len > 0, "W: nothing was pulled");
    kani::cover!(m.pos == 1, "W: exactly one element was pulled");
}

// @verif family=SEQ leak=1 quick=C15 timeout=1500 owner=C15
// @bounds kind=[Tracked;3]; prefix<=1 next(); len query or single pull; len query or next_chunk(n<=5) -- includes histories in which nothing is pulled; end in {drop, into_seq_iter all/partly}; CBMC memory-leak check
#[kani::proof]
#[kani::unwind(7)]
fn leak_array_idle() {
    let m = run([Tracked(0), Tracked(1), Tracked(2)].into_con_iter(), info(3, 0b111), 1, S_IDLE, take);
    kani::cover!(m.pos == 0, "W: nothing was pulled");
}

// @verif family=SEQ leak=1 quick=C15 timeout=1500 owner=C15
// @bounds kind=Vec<Tracked> len<=3 capacity 4; prefix<=3 next(); skip_to_end; any pull; single/len query; end in {drop, into_seq_iter all/partly}; CBMC memory-leak check
#[kani::proof]
#[kani::unwind(7)]
fn leak_vec_skip() {
    let len = any_len(3);
    let m = run(mkvec(len, 4).into_con_iter(), info(len, 0b111), 3, S_SKIP, take);
    wit_skip(&m);
}

// @verif family=SEQ leak=1 quick=C15 timeout=1500 owner=C15
// @bounds kind=[Tracked;3]; prefix<=3 next(); next_chunk(n<=5) consuming j; single/len query; end in {drop, into_seq_iter all/partly} (the remainder Vec is heap allocated); CBMC memory-leak check
#[kani::proof]
#[kani::unwind(7)]
fn leak_array_chunk() {
    let m = run([Tracked(0), Tracked(1), Tracked(2)].into_con_iter(), info(3, 0b111), 3, S_CHUNK, take);
    wit(&m);
}

// @verif family=SEQ leak=1 quick=C15 timeout=1500 owner=C15
// @bounds kind=ConIterOfIter<Tracked,OwningProbe> len<=3; prefix<=2 next(); buffered_iter(2) 1-2 pulls partly consumed (internal Vec<Option<T>> buffer); single/len query; end in {drop, into_seq_iter all/partly}; CBMC memory-leak check
#[kani::proof]
#[kani::unwind(7)]
fn leak_iter_owning_buf() {
    let len = any_len(3);
    let it = OwningProbe { pos: 0, len }.into_con_iter();
    let m = run(it, KindInfo { nbuf: 2, nmax: 2, ..info(len, 0b111) }, 2, S_BUF, take);
    wit(&m);
}

// @verif family=SEQ leak=1 quick=C15 timeout=1500 owner=C15
// @bounds kind=ConIterOfIter<Tracked,OwningProbe> len<=3; prefix<=3 next(); next_chunk(n<=len+2) (internal Vec buffer) consuming j; single/len query; end in {drop, into_seq_iter all/partly}; CBMC memory-leak check
#[kani::proof]
#[kani::unwind(7)]
fn leak_iter_owning_chunk() {
    let len = any_len(3);
    let it = OwningProbe { pos: 0, len }.into_con_iter();
    let m = run(it, info(len, 0b111), 3, S_CHUNK, take);
    wit(&m);
}

// @verif family=SEQ leak=1 quick=C15 timeout=1500 owner=C15
// @bounds kind=Vec<Box<u8>> (heap elements) len=2 capacity 2; k<=2 next() whose results are dropped by the caller; next_chunk(2) of which j<=1 items are consumed; drop or into_seq_iter+drop; repeated twice (create/consume/drop does not accumulate); CBMC memory-leak check
#[kani::proof]
#[kani::unwind(5)]
fn leak_vec_boxed() {
    let mut round = 0;
    while round < 2 {
        let mut v: Vec<Box<u8>> = Vec::with_capacity(2);
        v.push(Box::new(0));
        v.push(Box::new(1));
        let it = v.into_con_iter();
        let k: usize = kani::any();
        kani::assume(k <= 2);
        let mut i = 0;
        while i < k {
            let x = it.next();
            drop(x);
            i += 1;
        }
        if kani::any() {
            if let Some(c) = it.next_chunk(2) {
                let mut vals = c.values;
                if kani::any() {
                    let x = vals.next();
                    drop(x);
                }
                drop(vals);
            }
        }
        if kani::any() {
            drop(it);
        } else {
            let rem = it.into_seq_iter();
            drop(rem);
        }
        kani::cover!(round == 1 && k == 1, "W: second round after a partial consumption");
        round += 1;
    }
}

// ------------------------------------------------------------------------------------------------
// C19: several iterators over one collection progress independently; a clone starts at its parent's
// position; delivered references point at the collection's own elements; the collection is unchanged.
const TWO: u16 = (1 << OP_NEXT_ID) | (1 << OP_CHUNK);

fn two_step<I: ConcurrentIter, F: Fn(I::Item) -> usize>(it: &I, m: &mut Model, inf: &KindInfo, f: &F) {
    let op: u8 = kani::any();
    kani::assume(op == OP_NEXT_ID || op == OP_CHUNK || op == OP_LEN);
    let i2 = KindInfo { ops: TWO | M_LEN, ..*inf };
    step(it, m, &i2, op, f);
}

// @verif family=SEQ quick=C19 timeout=1500 owner=C19
// @bounds collection=Vec<u8> len<=3 (symbolic contents); iterators a=v.con_iter(), b=v.con_iter(), c=a.clone() taken after a symbolic prefix of <=2 pulls on a; then 3 symbolic operations (next_id_and_value / next_chunk(n<=len+2) / len query), each on a symbolic one of a,b,c; pointer identity of every delivered reference; v compared with a copy afterwards
#[kani::proof]
#[kani::unwind(7)]
fn indep_vec() {
    let len = any_len(3);
    let data: [u8; 3] = kani::any();
    let mut v = Vec::with_capacity(4);
    let mut i = 0;
    while i < len {
        v.push(data[i]);
        i += 1;
    }
    {
        let src: &[u8] = v.as_slice();
        let f = |r: &u8| pos_in(src, r);
        let inf = info(len, 1);
        let a = v.con_iter();
        let b = v.con_iter();
        let mut ma = Model::new(len);
        let mut mb = Model::new(len);
        let k: usize = kani::any();
        kani::assume(k <= 2);
        let mut i = 0;
        let pinf = KindInfo { ops: 1 << OP_NEXT, ..inf };
        while i < k {
            step(&a, &mut ma, &pinf, OP_NEXT, &f);
            i += 1;
        }
        let c = a.clone();
        // a clone starts at the original's current position and has delivered nothing itself
        let mut mc = Model::new(len);
        mc.pos = ma.pos;
        let mut s = 0;
        while s < 3 {
            let which: u8 = kani::any();
            kani::assume(which < 3);
            if which == 0 {
                two_step(&a, &mut ma, &inf, &f);
            } else if which == 1 {
                two_step(&b, &mut mb, &inf, &f);
            } else {
                two_step(&c, &mut mc, &inf, &f);
            }
            s += 1;
        }
        kani::cover!(ma.pos > mc.pos && mc.pos > mb.pos, "W: three iterators at three different positions");
        kani::cover!(mc.pos == len && ma.pos < len && len > 1, "W: the clone finished before the original");
    }
    assert!(v.len() == len, "C19: the collection must be fully usable afterwards");
    let mut i = 0;
    while i < len {
        assert!(v[i] == data[i], "C19: non-consuming iteration modified the collection");
        i += 1;
    }
}

// @verif family=SEQ quick=C19 timeout=1500 owner=C19
// @bounds collection=[u8;3] (symbolic contents) and a sub-slice of it; iterators a=arr.con_iter(), b=(&arr[1..]).con_iter() (positions shifted by one), c=a.clone() after <=2 pulls and an optional next_chunk(n<=5) that may overshoot the end; 3 symbolic operations on a symbolic one of them; pointer identity; array compared with a copy afterwards
#[kani::proof]
#[kani::unwind(7)]
fn indep_array_slice() {
    let arr: [u8; 3] = kani::any();
    let copy = arr;
    {
        let whole: &[u8] = &arr;
        let tail: &[u8] = &arr[1..];
        let fa = |r: &u8| pos_in(whole, r);
        let fb = |r: &u8| pos_in(tail, r);
        let a = arr.con_iter();
        let b = tail.con_iter();
        let ia = info(3, 1);
        let ib = info(2, 1);
        let mut ma = Model::new(3);
        let mut mb = Model::new(2);
        let k: usize = kani::any();
        kani::assume(k <= 2);
        let pinf = KindInfo { ops: 1 << OP_NEXT, ..ia };
        let mut i = 0;
        while i < k {
            step(&a, &mut ma, &pinf, OP_NEXT, &fa);
            i += 1;
        }
        // optionally a chunk pull that may overshoot the end before the clone is taken
        if kani::any() {
            let cinf = KindInfo { ops: 1 << OP_CHUNK, ..ia };
            step(&a, &mut ma, &cinf, OP_CHUNK, &fa);
        }
        let c = a.clone();
        let mut mc = Model::new(3);
        mc.pos = ma.pos;
        let mut s = 0;
        while s < 3 {
            let which: u8 = kani::any();
            kani::assume(which < 3);
            if which == 0 {
                two_step(&a, &mut ma, &ia, &fa);
            } else if which == 1 {
                two_step(&b, &mut mb, &ib, &fb);
            } else {
                two_step(&c, &mut mc, &ia, &fa);
            }
            s += 1;
        }
        kani::cover!(mb.pos == 2 && ma.pos == 0, "W: the sub-slice iterator finished, the array iterator untouched");
    }
    assert!(arr[0] == copy[0] && arr[1] == copy[1] && arr[2] == copy[2], "C19: non-consuming iteration modified the array");
}

// @verif family=SEQ quick=C19 timeout=1500 owner=C19
// @bounds collection=Range<usize> start<=5, len<=3; iterators a=r.con_iter(), b=r.con_iter(), c=a.clone() after <=2 pulls; 3 symbolic operations on a symbolic one of them; the range value is compared afterwards
#[kani::proof]
#[kani::unwind(7)]
fn indep_range() {
    let len = any_len(3);
    let start: usize = kani::any();
    kani::assume(start <= 5);
    let r = start..start + len;
    let f = |v: usize| v.wrapping_sub(start);
    let inf = info(len, 1);
    let a = r.con_iter();
    let b = r.con_iter();
    let mut ma = Model::new(len);
    let mut mb = Model::new(len);
    let k: usize = kani::any();
    kani::assume(k <= 2);
    let pinf = KindInfo { ops: 1 << OP_NEXT, ..inf };
    let mut i = 0;
    while i < k {
        step(&a, &mut ma, &pinf, OP_NEXT, &f);
        i += 1;
    }
    let c = a.clone();
    let mut mc = Model::new(len);
    mc.pos = ma.pos;
    let mut s = 0;
    while s < 3 {
        let which: u8 = kani::any();
        kani::assume(which < 3);
        if which == 0 {
            two_step(&a, &mut ma, &inf, &f);
        } else if which == 1 {
            two_step(&b, &mut mb, &inf, &f);
        } else {
            two_step(&c, &mut mc, &inf, &f);
        }
        s += 1;
    }
    kani::cover!(ma.pos > mc.pos && mc.pos > mb.pos, "W: three iterators at three different positions");
    assert!(r.start == start && r.end == start + len, "C19: the range must be unchanged");
}

// ------------------------------------------------------------------------------------------------
// C14 clause "no sequence of safe public calls produces two owners of one element": the low-level
// AtomicIter API (public module `iter::atomic_iter`) is safe and lets a caller move the same element
// out twice. Known finding KF-C14-lowlevel; the harness isolates the two smallest call sequences.
// @verif family=SEQ quick=C14 timeout=1500
// @bounds kind=Vec<Tracked> len=2; safe calls only: either AtomicIter::get(0) twice, or next() followed by counter().store(0) and next()  (isolates known finding KF-C14-lowlevel)
#[kani::proof]
#[kani::unwind(5)]
fn kf_lowlevel_two_owners() {
    use orx_concurrent_iter::iter::atomic_iter::AtomicIter;
    let it = mkvec(2, 3).into_con_iter();
    let which: bool = kani::any();
    let (a, b) = if which {
        (AtomicIter::get(&it, 0), AtomicIter::get(&it, 0))
    } else {
        let a = it.next();
        it.counter().store(0);
        (a, it.next())
    };
    let two = match (&a, &b) {
        (Some(x), Some(y)) => x.0 == y.0,
        _ => false,
    };
    core::mem::forget(a);
    core::mem::forget(b);
    core::mem::forget(it);
    kani::cover!(which, "W: get twice");
    assert!(!two, "C14: KF-C14-lowlevel: safe public calls produced two owners of one element");
}
