//! SEQ harnesses: bounded symbolic single-threaded histories per source kind (DESIGN.md §2 SEQ).
//!
//! Shape of every history: a symbolic number of single pulls (prefix), then one symbolic operation
//! per script entry, then a symbolic end operation (drop / into_seq_iter fully / into_seq_iter partly).
use crate::common::*;
use crate::seq::*;
use orx_concurrent_iter::*;

static mut VH_MOVED: [u8; LMAX] = [0; LMAX];

fn take(t: Tracked) -> usize {
    let p = t.0 as usize;
    unsafe { VH_MOVED[p] += 1 };
    core::mem::forget(t);
    p
}

/// C08 oracle: after everything is gone, each element was moved out or destroyed exactly once.
/// `made(i)`: the element exists (always true for vec/array; lazily created by the owning probe).
fn ledger(len: usize, lazily_created: bool, lost_ok: bool) {
    let mut i = 0;
    while i < len {
        let total = unsafe { VH_MOVED[i] } + drops(i);
        if !lazily_created || created(i) == 1 {
            if !lost_ok {
                assert!(total >= 1, "C08: an element was neither moved out nor destroyed");
            }
        } else {
            assert!(created(i) == 0, "C08: harness ledger: element created twice");
            assert!(total == 0, "C08: an element that was never produced was moved out or destroyed");
        }
        assert!(total <= 1, "C08: an element was moved out and destroyed, or destroyed twice");
        i += 1;
    }
}

// shapes -----------------------------------------------------------------------------------------
const S_CHUNK: &[u16] = &[M_CHUNK, M_SINGLE | M_LEN];
const S_BUF: &[u16] = &[M_BUF, M_SINGLE | M_LEN];
const S_SKIP: &[u16] = &[M_SKIP, M_PULLS, M_SINGLE | M_LEN];
const S_SKIP_LONG: &[u16] = &[M_SKIP, M_SINGLE | M_LEN, M_SINGLE, M_SINGLE | M_CHUNK | M_LEN, M_SINGLE | M_LEN];
const S_LOOPS: &[u16] = &[M_LOOPS];
const S_END: &[u16] = &[M_SINGLE | M_CHUNK, M_SINGLE | M_CHUNK | M_LEN, M_SINGLE | M_LEN];
const S_ADAPT: &[u16] = &[M_ADAPT, M_ADAPT | M_LEN];
/// longer free-form histories (thorough tier, cheap kinds only)
const S_LONG: &[u16] = &[M_PULLS, M_PULLS | M_LEN | M_SKIP, M_SINGLE | M_CHUNK | M_LEN];
/// histories in which possibly nothing at all is pulled
const S_IDLE: &[u16] = &[M_LEN | M_SINGLE, M_LEN | M_CHUNK];

const E_ALL: u8 = 0b111;
const E_DROP: u8 = 0b001;

fn wit_chunk(m: &Model) {
    kani::cover!(m.w_short_chunk, "W: a short final chunk happened");
    kani::cover!(m.w_partial, "W: a chunk was only partly consumed");
    kani::cover!(m.w_past_end, "W: a pull past the end happened");
    kani::cover!(m.pos == m.len && m.len > 1, "W: exactly exhausted");
    kani::cover!(m.pos < m.len && m.pos > 0, "W: ended mid-way");
}
fn wit_buf(m: &Model) {
    wit_chunk(m);
    kani::cover!(m.w_second_buffered && m.w_partial, "W: buffer re-used after a partly consumed chunk");
}
fn wit_skip(m: &Model) {
    kani::cover!(m.w_after_skip, "W: a pull after skip_to_end happened");
    kani::cover!(m.skipped && m.pos > 0 && m.pos < m.len, "W: skipped mid-way");
}
fn wit_loops(m: &Model) {
    kani::cover!(m.pos == m.len && m.len > 1, "W: loop consumed the rest");
}
fn wit_idle(m: &Model) {
    kani::cover!(m.pos == 0 && m.len > 0, "W: nothing was pulled");
    kani::cover!(m.pos == 1, "W: exactly one element was pulled");
}
fn wit_some(m: &Model) {
    kani::cover!(m.pos > 0, "W: something was delivered");
}

// kinds ------------------------------------------------------------------------------------------
fn any_len(lmax: usize) -> usize {
    let len: usize = kani::any();
    kani::assume(len <= lmax);
    len
}

fn info(len: usize, sized: bool, ends: u8) -> KindInfo {
    KindInfo { len, sized, nmax: len + 2, ops: 0, ends, nbuf: 0, lying: false }
}

fn go_slice(lmax: usize, prefix: usize, script: &[u16], ends: u8, wit: fn(&Model)) {
    let len = any_len(lmax);
    let data: [u8; LMAX] = kani::any();
    let src = &data[..len];
    let m = run(src.into_con_iter(), info(len, true, ends), prefix, script, |r: &u8| pos_in(src, r));
    wit(&m);
}

fn mkvec(len: usize, cap: usize) -> Vec<Tracked> {
    let mut v = Vec::with_capacity(cap);
    let mut i = 0;
    while i < len {
        v.push(Tracked(i as u8));
        i += 1;
    }
    v
}

fn go_vec(lmax: usize, prefix: usize, script: &[u16], ends: u8, wit: fn(&Model)) {
    let len = any_len(lmax);
    // concrete capacity (a symbolic allocation size is very expensive for CBMC); capacity == len is
    // covered by the `vec3_*` harnesses below
    let v = mkvec(len, lmax + 1);
    let m = run(v.into_con_iter(), info(len, true, ends), prefix, script, take);
    // known finding KF-C08-skip (vec/array): elements skipped by skip_to_end are never destroyed; that class
    // is isolated in the kf_*_skip_undropped harnesses, everything else is checked here
    ledger(len, false, m.skipped);
    wit(&m);
}

fn go_array3(prefix: usize, script: &[u16], ends: u8, wit: fn(&Model)) {
    let a = [Tracked(0), Tracked(1), Tracked(2)];
    let m = run(a.into_con_iter(), info(3, true, ends), prefix, script, take);
    ledger(3, false, m.skipped);
    wit(&m);
}

fn go_range(lmax: usize, prefix: usize, script: &[u16], ends: u8, wit: fn(&Model)) {
    let len = any_len(lmax);
    let start: usize = kani::any();
    kani::assume(start <= 5);
    let it = IntoConcurrentIter::into_con_iter(start..start + len);
    let m = run(it, info(len, true, ends), prefix, script, |v: usize| v.wrapping_sub(start));
    wit(&m);
}

fn go_iter(lmax: usize, prefix: usize, script: &[u16], ends: u8, wit: fn(&Model)) {
    go_iter_n(lmax, prefix, script, ends, wit, 0)
}

/// `nbuf`: concrete chunk size of buffered iterators (the wrapper allocates `chunk_size` slots)
fn go_iter_n(lmax: usize, prefix: usize, script: &[u16], ends: u8, wit: fn(&Model), nbuf: usize) {
    let len = any_len(lmax);
    let hint: u8 = kani::any();
    kani::assume(hint < 4);
    let it = Probe::new(len, hint).into_con_iter();
    let m = run(it, KindInfo { nbuf, lying: hint == 3, ..info(len, hint == 0, ends) }, prefix, script, |v: usize| v);
    wit(&m);
}

fn go_iter_owning(lmax: usize, prefix: usize, script: &[u16], ends: u8, wit: fn(&Model), nbuf: usize) {
    let len = any_len(lmax);
    let it = OwningProbe { pos: 0, len }.into_con_iter();
    let m = run(it, KindInfo { nbuf, nmax: if nbuf > 0 { nbuf } else { len + 2 }, ..info(len, true, ends) }, prefix, script, take);
    ledger(len, true, false);
    wit(&m);
}

// ------------------------------------------------------------------------------------------------
// slice
// @verif family=SEQ quick=C03,C04,C05,C10,C11,C17 thorough=C01,C02,C16 timeout=1500
// @bounds kind=&[u8]; len<=3 (symbolic contents); prefix<=3 next(); then next_chunk(n<=len+2) consuming j<=len(chunk) items; then one of next/next_id_and_value/try_get_len+has_more; end in {drop, into_seq_iter all, into_seq_iter partly}
#[kani::proof]
#[kani::unwind(7)]
fn slice_chunk() {
    go_slice(3, 3, S_CHUNK, E_ALL, wit_chunk);
}

// @verif family=SEQ quick=C03,C04,C05,C10,C11,C17 thorough=C01,C02 timeout=1500
// @bounds kind=&[u8]; len<=3; prefix<=3 next(); then buffered_iter(n<=len+2) with 1 or 2 pulls, each consumed partly (j1,j2 symbolic); then one of next/next_id_and_value/try_get_len+has_more; end in {drop, into_seq_iter all/partly}
#[kani::proof]
#[kani::unwind(7)]
fn slice_buf() {
    go_slice(3, 3, S_BUF, E_ALL, wit_buf);
}

// @verif family=SEQ quick=C06,C10,C11 thorough=C05 timeout=1500
// @bounds kind=&[u8]; len<=3; prefix<=3 next(); skip_to_end; any pull (single, chunk n<=len+2, buffered x2); one of single/len query; end in {drop, into_seq_iter all/partly}
#[kani::proof]
#[kani::unwind(7)]
fn slice_skip() {
    go_slice(3, 3, S_SKIP, E_ALL, wit_skip);
}

// @verif family=SEQ quick=C12 thorough=C01,C02 timeout=1500
// @bounds kind=&[u8]; len<=3; prefix<=3 next(); one of for_each(n)/enumerate_for_each(n)/fold(n), n in [1,len+2]; end drop
#[kani::proof]
#[kani::unwind(7)]
fn slice_loops() {
    go_slice(3, 3, S_LOOPS, E_DROP, wit_loops);
}

// @verif family=SEQ quick=C01,C02,C04 timeout=1500
// @bounds kind=&[u8]; len<=3; prefix<=3 next(); two of values().next()/ids_and_values().next()/len query; end in {drop, into_seq_iter all/partly}
#[kani::proof]
#[kani::unwind(7)]
fn slice_adapt() {
    go_slice(3, 3, S_ADAPT, E_ALL, wit_some);
}

// ------------------------------------------------------------------------------------------------
// vec (consuming)
// @verif family=SEQ quick=C03,C04,C08,C10,C17 thorough=C01,C02,C05,C11 timeout=1500
// @bounds kind=Vec<Tracked>; len<=3, capacity 4; prefix<=3 next(); next_chunk(n<=len+2) consuming j items (rest dropped by the chunk); one of single/len query; end in {drop, into_seq_iter all/partly}; drop ledger
#[kani::proof]
#[kani::unwind(7)]
fn vec_chunk() {
    go_vec(3, 3, S_CHUNK, E_ALL, wit_chunk);
}

// @verif family=SEQ quick=C03,C08,C10,C17 thorough=C01,C02,C04,C05,C11 timeout=1500
// @bounds kind=Vec<Tracked>; len<=3, capacity 4; prefix<=3 next(); buffered_iter(n<=len+2) 1-2 pulls partly consumed; one of single/len query; end in {drop, into_seq_iter all/partly}; drop ledger
#[kani::proof]
#[kani::unwind(7)]
fn vec_buf() {
    go_vec(3, 3, S_BUF, E_ALL, wit_buf);
}

// @verif family=SEQ quick=C06,C08 thorough=C10,C11 timeout=1500
// @bounds kind=Vec<Tracked>; len<=3; prefix<=3 next(); skip_to_end; any pull; single/len query; end in {drop, into_seq_iter all/partly}; drop ledger
#[kani::proof]
#[kani::unwind(7)]
fn vec_skip() {
    go_vec(3, 3, S_SKIP, E_ALL, wit_skip);
}

// @verif family=SEQ quick=C12 thorough=C08 timeout=1500
// @bounds kind=Vec<Tracked>; len<=3; prefix<=3 next(); one of for_each/enumerate_for_each/fold with n in [1,len+2]; end drop; drop ledger
#[kani::proof]
#[kani::unwind(7)]
fn vec_loops() {
    go_vec(3, 3, S_LOOPS, E_DROP, wit_loops);
}

// ------------------------------------------------------------------------------------------------
// array (consuming)
// @verif family=SEQ quick=C03,C08,C10,C17 thorough=C01,C02,C04,C05,C11 timeout=1500
// @bounds kind=[Tracked;3]; prefix<=3 next(); next_chunk(n<=5) consuming j; one of single/len query; end in {drop, into_seq_iter all/partly}; drop ledger
#[kani::proof]
#[kani::unwind(7)]
fn array_chunk() {
    go_array3(3, S_CHUNK, E_ALL, wit_chunk);
}

// @verif family=SEQ quick=C08,C10 thorough=C03,C01,C02,C17 timeout=1500
// @bounds kind=[Tracked;3]; prefix<=3 next(); buffered_iter(n<=5) 1-2 pulls partly consumed; one of single/len query; end in {drop, into_seq_iter all/partly}; drop ledger
#[kani::proof]
#[kani::unwind(7)]
fn array_buf() {
    go_array3(3, S_BUF, E_ALL, wit_buf);
}

// @verif family=SEQ quick=C06,C08 thorough=C10,C11 timeout=1500
// @bounds kind=[Tracked;3]; prefix<=3 next(); skip_to_end; any pull; single/len query; end in {drop, into_seq_iter all/partly}; drop ledger
#[kani::proof]
#[kani::unwind(7)]
fn array_skip() {
    go_array3(3, S_SKIP, E_ALL, wit_skip);
}

// ------------------------------------------------------------------------------------------------
// range
// @verif family=SEQ quick=C03,C04,C05,C10,C11,C17 thorough=C01,C02 timeout=1500
// @bounds kind=Range<usize> start<=5, len<=3; prefix<=3 next(); next_chunk(n<=len+2) consuming j; one of single/len query; end in {drop, into_seq_iter all/partly}
#[kani::proof]
#[kani::unwind(7)]
fn range_chunk() {
    go_range(3, 3, S_CHUNK, E_ALL, wit_chunk);
}

// @verif family=SEQ quick=C03,C10 thorough=C01,C02,C04,C05,C11,C17 timeout=1500
// @bounds kind=Range<usize> start<=5, len<=3; prefix<=3 next(); buffered_iter(n<=len+2) 1-2 pulls partly consumed; one of single/len query; end in {drop, into_seq_iter all/partly}
#[kani::proof]
#[kani::unwind(7)]
fn range_buf() {
    go_range(3, 3, S_BUF, E_ALL, wit_buf);
}

// @verif family=SEQ quick=C06 thorough=C10,C11 timeout=1500
// @bounds kind=Range<usize> start<=5, len<=3; prefix<=3 next(); skip_to_end; any pull; single/len query; end in {drop, into_seq_iter all/partly}
#[kani::proof]
#[kani::unwind(7)]
fn range_skip() {
    go_range(3, 3, S_SKIP, E_ALL, wit_skip);
}

// @verif family=SEQ thorough=C12 timeout=1500
// @bounds kind=Range<usize> start<=5, len<=3; prefix<=3 next(); one of for_each/enumerate_for_each/fold with n in [1,len+2]; end drop
#[kani::proof]
#[kani::unwind(7)]
fn range_loops() {
    go_range(3, 3, S_LOOPS, E_DROP, wit_loops);
}

// ------------------------------------------------------------------------------------------------
// wrapper over an arbitrary Iterator (ConIterOfIter<usize, Probe>), exact / inexact / unbounded hints
// @verif family=SEQ quick=C03,C04,C05,C10,C11 thorough=C01,C02,C17,C09 timeout=1500
// @bounds kind=ConIterOfIter<usize,Probe> len<=3, size_hint in {exact,inexact,unbounded}; prefix<=3 next(); next_chunk(n<=len+2) consuming j; one of single/len query; end in {drop, into_seq_iter all/partly}
#[kani::proof]
#[kani::unwind(7)]
fn iter_chunk() {
    go_iter(3, 3, S_CHUNK, E_ALL, wit_chunk);
}

// @verif family=SEQ quick=C03,C04,C05,C10,C11 thorough=C01,C02,C17,C09 timeout=1500
// @bounds kind=ConIterOfIter<usize,Probe> len<=3, exact/inexact/unbounded/over-promising size hints; prefix<=3 next(); buffered_iter(2) 1-2 pulls partly consumed (stale buffer slots); one of single/len query; end in {drop, into_seq_iter all/partly}
#[kani::proof]
#[kani::unwind(7)]
fn iter_buf() {
    go_iter_n(3, 3, S_BUF, E_ALL, wit_buf, 2);
}

// @verif family=SEQ thorough=C03,C04,C05,C10,C11 timeout=1500 optcov=mid-way
// @bounds kind=ConIterOfIter<usize,Probe> len<=3, exact/inexact/unbounded/over-promising size hints; prefix<=3 next(); buffered_iter(3) 1-2 pulls partly consumed; single/len query; end in {drop, into_seq_iter all/partly}
#[kani::proof]
#[kani::unwind(7)]
fn iter_buf3() {
    go_iter_n(3, 3, S_BUF, E_ALL, wit_buf, 3);
}

// @verif family=SEQ quick=C06 thorough=C10,C11,C09 timeout=1500
// @bounds kind=ConIterOfIter<usize,Probe> len<=2, exact/inexact/unbounded/over-promising size hints; prefix<=2 next(); skip_to_end; 4 steps of single pulls / len queries / one chunk pull (enough pulls for the reserved counter to come back to the yielded count); end in {drop, into_seq_iter all/partly}
#[kani::proof]
#[kani::unwind(6)]
fn iter_skip() {
    go_iter(2, 2, S_SKIP_LONG, E_ALL, wit_skip);
}

// @verif family=SEQ quick=C06,C11 thorough=C10 timeout=1500
// @bounds kind=ConIterOfIter<usize,Probe> len<=3, exact/inexact/unbounded/over-promising size hints; prefix<=3 next(); skip_to_end; any pull (single, chunk n<=len+2, buffered x2); single/len query; end in {drop, into_seq_iter all/partly}
#[kani::proof]
#[kani::unwind(7)]
fn iter_skip_any() {
    go_iter_n(3, 3, S_SKIP, E_ALL, wit_skip, 2);
}

// @verif family=SEQ quick=C12 thorough=C01,C02 timeout=1500
// @bounds kind=ConIterOfIter<usize,Probe> len<=3, exact/inexact/unbounded/over-promising size hints; prefix<=3 next(); one of for_each/enumerate_for_each/fold with chunk size 1 (the buffered path of the loops on the wrapper ran out of memory in CBMC even for len<=2 and is outside this bound; buffered pulls on the wrapper are covered by iter_buf, the loops' buffered path by the slice/vec/range harnesses and ENV)
#[kani::proof]
#[kani::unwind(7)]
fn iter_loops() {
    go_iter_n(3, 3, S_LOOPS, E_DROP, wit_loops, 1);
}

// @verif family=SEQ quick=C08 thorough=C03,C10 timeout=1500
// @bounds kind=ConIterOfIter<Tracked,OwningProbe> len<=3; prefix<=3 next(); next_chunk(n<=len+2) consuming j; one of single/len query; end in {drop, into_seq_iter all/partly}; drop ledger (elements are created lazily by the probe)
#[kani::proof]
#[kani::unwind(7)]
fn iter_owning_chunk() {
    go_iter_owning(3, 3, S_CHUNK, E_ALL, wit_chunk, 0);
}

// @verif family=SEQ quick=C08 thorough=C03,C10 timeout=1500
// @bounds kind=ConIterOfIter<Tracked,OwningProbe> len<=3; prefix<=2 next(); buffered_iter(2) 1-2 pulls partly consumed (unconsumed elements stay in the buffer until overwritten or the buffer is dropped); one of single/len query; end in {drop, into_seq_iter all/partly}; drop ledger
#[kani::proof]
#[kani::unwind(6)]
fn iter_owning_buf() {
    go_iter_owning(3, 2, S_BUF, E_ALL, wit_buf, 2);
}

// ------------------------------------------------------------------------------------------------
// known finding KF-C08-skip: after skip_to_end on a consuming vec/array iterator the elements that were
// neither delivered nor returned by into_seq_iter are never destroyed. Minimal class: k pulls, skip, drop.
fn kf_ledger(len: usize, k: usize) {
    let mut i = 0;
    while i < len {
        let total = unsafe { VH_MOVED[i] } + drops(i);
        if i >= k {
            assert!(total >= 1, "C08: KF-C08-skip: an element skipped by skip_to_end was never destroyed");
        }
        i += 1;
    }
}

// @verif family=SEQ quick=C08 timeout=1500
// @bounds kind=Vec<Tracked> len=3; k<=2 next(); skip_to_end; drop  (isolates known finding KF-C08-skip)
#[kani::proof]
#[kani::unwind(6)]
fn kf_vec_skip_undropped() {
    let it = mkvec(3, 4).into_con_iter();
    let k: usize = kani::any();
    kani::assume(k <= 2);
    let mut i = 0;
    while i < k {
        take(it.next().unwrap());
        i += 1;
    }
    it.skip_to_end();
    drop(it);
    kani::cover!(k == 1, "W: skipped after one pull");
    kf_ledger(3, k);
}

// @verif family=SEQ quick=C08 timeout=1500
// @bounds kind=[Tracked;3]; k<=2 next(); skip_to_end; drop  (isolates known finding KF-C08-skip)
#[kani::proof]
#[kani::unwind(6)]
fn kf_array_skip_undropped() {
    let it = [Tracked(0), Tracked(1), Tracked(2)].into_con_iter();
    let k: usize = kani::any();
    kani::assume(k <= 2);
    let mut i = 0;
    while i < k {
        take(it.next().unwrap());
        i += 1;
    }
    it.skip_to_end();
    drop(it);
    kani::cover!(k == 1, "W: skipped after one pull");
    kf_ledger(3, k);
}

// ------------------------------------------------------------------------------------------------
// thorough tier: larger bounds / freer histories on the cheap kinds
// @verif family=SEQ thorough=C01,C02,C03,C04,C05,C06,C10,C11 timeout=3600 mem=24
// @bounds kind=&[u8] len<=4; prefix<=4 next(); any pull (single / chunk n<=len+2 / buffered x2); any pull or len query or skip_to_end; single/chunk/len; end in {drop, into_seq_iter all/partly}
#[kani::proof]
#[kani::unwind(8)]
fn slice_long() {
    go_slice(4, 4, S_LONG, E_ALL, wit_some);
}

// @verif family=SEQ thorough=C01,C02,C03,C04,C05,C06,C10,C11 timeout=3600 mem=24
// @bounds kind=Range<usize> start<=5, len<=4; prefix<=4 next(); any pull; any pull or len query or skip_to_end; single/chunk/len; end in {drop, into_seq_iter all/partly}
#[kani::proof]
#[kani::unwind(8)]
fn range_long() {
    go_range(4, 4, S_LONG, E_ALL, wit_some);
}

// @verif family=SEQ thorough=C01,C03,C04,C05,C06,C09,C10,C11 timeout=3600 mem=24
// @bounds kind=ConIterOfIter<usize,Probe> len<=3, exact/inexact/unbounded/over-promising size hints, buffered chunk size 2; prefix<=3 next(); any pull; any pull or len query or skip_to_end; single/chunk/len; end in {drop, into_seq_iter all/partly}
#[kani::proof]
#[kani::unwind(7)]
fn iter_long() {
    go_iter_n(3, 3, S_LONG, E_ALL, wit_some, 2);
}

// @verif family=SEQ thorough=C08,C03,C10 timeout=3600 mem=24
// @bounds kind=Vec<Tracked> len<=3 capacity 4; prefix<=3 next(); any pull; any pull or len query or skip_to_end; single/chunk/len; end in {drop, into_seq_iter all/partly}; drop ledger
#[kani::proof]
#[kani::unwind(7)]
fn vec_long() {
    go_vec(3, 3, S_LONG, E_ALL, wit_some);
}

// @verif family=SEQ thorough=C08,C03,C10,C06 timeout=3600 mem=24
// @bounds kind=[Tracked;3]; prefix<=3 next(); any pull (single / chunk n<=5 / buffered x2); any pull or len query or skip_to_end; single/chunk/len; end in {drop, into_seq_iter all/partly}; drop ledger
#[kani::proof]
#[kani::unwind(7)]
fn array_long() {
    go_array3(3, S_LONG, E_ALL, wit_some);
}

// @verif family=SEQ thorough=C08,C06,C03,C02 timeout=3600 mem=24
// @bounds kind=ConIterOfIter<Tracked,OwningProbe> len<=3, buffered chunk size 2; prefix<=2 next(); any pull (single / chunk n<=len+2 / buffered x2); any pull or len query or skip_to_end; single/chunk/len; end in {drop, into_seq_iter all/partly}; drop ledger
#[kani::proof]
#[kani::unwind(6)]
fn iter_owning_long() {
    go_iter_owning(3, 2, S_LONG, E_ALL, wit_some, 2);
}

// ------------------------------------------------------------------------------------------------
// C09 on the wrapper, single-threaded: with the memory-backed hook every atomic access is counted; an
// operation that performs more than 12 loads in a row without any write is spinning on a memory that
// nobody else can change (there is no other thread): it would wait forever. (The plain harnesses above see
// the same defect only as a failed unwinding assertion, which has no concrete input to replay.)
#[cfg(orx_concurrent_iter_verif)]
fn spin_guard() {
    crate::hook::link();
    unsafe {
        crate::hook::VH_SPIN_LIMIT = 12;
        crate::hook::VH_LOG_OFF = true;
    }
}

// @verif family=SEQ hook=1 quick=C09 thorough=C05 timeout=1500 owner=C09
// @bounds kind=ConIterOfIter<usize,Probe> len<=3, exact/inexact/unbounded/over-promising size hints; prefix<=3 next(); next_chunk(n<=len+2) consuming j; single/len query; end in {drop, into_seq_iter all/partly}; spin detection: >12 consecutive loads
#[cfg(orx_concurrent_iter_verif)]
#[kani::proof]
#[kani::unwind(9)]
fn iterh_chunk() {
    spin_guard();
    go_iter(3, 3, S_CHUNK, E_ALL, wit_chunk);
}

// @verif family=SEQ hook=1 quick=C09 thorough=C05 timeout=1500 owner=C09
// @bounds kind=ConIterOfIter<usize,Probe> len<=3, exact/inexact/unbounded/over-promising size hints; prefix<=3 next(); buffered_iter(2) 1-2 pulls partly consumed; single/len query; end in {drop, into_seq_iter all/partly}; spin detection
#[cfg(orx_concurrent_iter_verif)]
#[kani::proof]
#[kani::unwind(9)]
fn iterh_buf() {
    spin_guard();
    go_iter_n(3, 3, S_BUF, E_ALL, wit_buf, 2);
}

// @verif family=SEQ hook=1 quick=C09 thorough=C06 timeout=1500 owner=C09
// @bounds kind=ConIterOfIter<usize,Probe> len<=2, exact/inexact/unbounded/over-promising size hints; prefix<=2 next(); skip_to_end; 4 more steps of single pulls / len queries / one chunk pull; end in {drop, into_seq_iter all/partly}; spin detection
#[cfg(orx_concurrent_iter_verif)]
#[kani::proof]
#[kani::unwind(9)]
fn iterh_skip() {
    spin_guard();
    go_iter(2, 2, S_SKIP_LONG, E_ALL, wit_skip);
}
