//! ENV harnesses (hook on): for_each / enumerate_for_each / fold on the known-size kinds while an
//! "other thread" performs arbitrary complete pulls *between the atomic accesses* of the operation
//! under test. IND shows that every pull of these kinds is atomic at its single RMW, so interleaving
//! whole foreign pulls at the access points is exactly the set of interleavings (DESIGN.md §2 ENV).
use crate::common::*;
use crate::hook::{self, *};
use orx_concurrent_iter::*;

const LEN: usize = 3;

/// deliveries to the operation under test / to the environment, per position
static mut VH_ENV_MINE: [u8; LMAX] = [0; LMAX];
static mut VH_ENV_THEIRS: [u8; LMAX] = [0; LMAX];
static mut VH_ENV_BUDGET: usize = 0;
static mut VH_ENV_IT: *const () = core::ptr::null();
static mut VH_ENV_BAD: bool = false;
static mut VH_ENV_RAN: usize = 0;
static mut VH_ENV_SKIPPED: bool = false;
static mut VH_ENV_ALLOW_SKIP: bool = false;

fn theirs(p: usize) {
    unsafe {
        if p < LMAX {
            VH_ENV_THEIRS[p] += 1;
        } else {
            VH_ENV_BAD = true;
        }
    }
}

/// The other thread: at most `VH_ENV_BUDGET` complete pulls, each at an arbitrary access point. Its own
/// deliveries are recorded by reported index (the operation under test is checked by element identity).
fn env_any<I: ConcurrentIter>() {
    unsafe {
        if VH_ENV_BUDGET == 0 || !kani::any::<bool>() {
            return;
        }
        VH_ENV_BUDGET -= 1;
        VH_ENV_RAN += 1;
        let it = &*(VH_ENV_IT as *const I);
        let what: u8 = kani::any();
        if what == 0 {
            if let Some(x) = it.next_id_and_value() {
                theirs(x.idx);
            }
        } else if what == 1 {
            let m: usize = kani::any();
            kani::assume(m >= 1 && m <= LEN + 1);
            if let Some(c) = it.next_chunk(m) {
                let b = c.begin_idx;
                let k = c.values.len();
                let mut i = 0;
                while i < LEN {
                    if i < k {
                        theirs(b + i);
                    }
                    i += 1;
                }
            }
        } else if VH_ENV_ALLOW_SKIP {
            it.skip_to_end();
            VH_ENV_SKIPPED = true;
        }
    }
}

fn mine(p: usize) {
    unsafe {
        if p < LMAX {
            VH_ENV_MINE[p] += 1;
        } else {
            VH_ENV_BAD = true;
        }
    }
}

fn verdict(len: usize) {
    unsafe {
        assert!(!VH_ENV_BAD, "C12 C02: an element was delivered with a wrong index or from outside the source");
        let mut p = 0;
        while p < LEN {
            if p < len {
                let total = VH_ENV_MINE[p] + VH_ENV_THEIRS[p];
                assert!(total <= 1, "C12 C01: an element was visited twice (by the loop and/or a concurrent pull)");
                if !VH_ENV_SKIPPED {
                    assert!(total == 1, "C12 C01: an element was visited by nobody although the loop returned");
                }
            }
            p += 1;
        }
        kani::cover!(VH_ENV_RAN == 2, "W: two foreign pulls were interleaved");
        kani::cover!(VH_ENV_RAN > 0 && VH_ENV_MINE[0] == 0 && VH_ENV_MINE[1] == 1, "W: a foreign pull took the first element, the loop a later one");
    }
}

fn setup<I: ConcurrentIter>(_src: &[u8], it: &I, allow_skip: bool) {
    hook::link();
    unsafe {
        VH_ENV_IT = it as *const I as *const ();
        VH_ENV_BUDGET = 2;
        VH_ENV_ALLOW_SKIP = allow_skip;
        VH_ENV = Some(env_any::<I>);
    }
}

fn done<I: ConcurrentIter>(it: &I) {
    unsafe {
        VH_ENV = None;
    }
    assert!(it.next().is_none(), "C12 C05: the iterator must be exhausted when for_each/fold returns");
}

// @verif family=ENV hook=1 quick=C12 thorough=C01,C02 timeout=1800 owner=C12
// @bounds kind=&[u8] len<=3; for_each(n) with n in [1,4] (both code paths) while another party performs <=2 complete pulls (next_id_and_value / next_chunk(m<=4)) at arbitrary atomic access points of the loop
#[kani::proof]
#[kani::unwind(7)]
fn env_for_each_slice() {
    let len: usize = kani::any();
    kani::assume(len <= LEN);
    let data: [u8; LEN] = kani::any();
    let src = &data[..len];
    let it = src.into_con_iter();
    setup(src, &it, false);
    let n: usize = kani::any();
    kani::assume(n >= 1 && n <= LEN + 1);
    it.for_each(n, |r| mine(pos_in(src, r)));
    done(&it);
    verdict(len);
}

// @verif family=ENV hook=1 quick=C12 thorough=C02 timeout=1800 owner=C12
// @bounds kind=&[u8] len<=3; enumerate_for_each(n) with n in [1,4] while another party performs <=2 complete pulls at arbitrary access points; index arguments checked against pointer identity
#[kani::proof]
#[kani::unwind(7)]
fn env_enumerate_slice() {
    let len: usize = kani::any();
    kani::assume(len <= LEN);
    let data: [u8; LEN] = kani::any();
    let src = &data[..len];
    let it = src.into_con_iter();
    setup(src, &it, false);
    let n: usize = kani::any();
    kani::assume(n >= 1 && n <= LEN + 1);
    it.enumerate_for_each(n, |i, r| {
        let p = pos_in(src, r);
        if p != i {
            unsafe { VH_ENV_BAD = true };
        }
        mine(p)
    });
    done(&it);
    verdict(len);
}

// @verif family=ENV hook=1 quick=C12 timeout=1800 owner=C12
// @bounds kind=&[u8] len<=3 with contents = position+1; fold(n, 0, +) with n in [1,4] while another party performs <=2 complete pulls; loop's sum + the other party's sum = sequential sum
#[kani::proof]
#[kani::unwind(7)]
fn env_fold_slice() {
    let len: usize = kani::any();
    kani::assume(len <= LEN);
    let data: [u8; LEN] = [1, 2, 3];
    let src = &data[..len];
    let it = src.into_con_iter();
    setup(src, &it, false);
    let n: usize = kani::any();
    kani::assume(n >= 1 && n <= LEN + 1);
    let sum = it.fold(n, 0usize, |a, r| {
        mine(pos_in(src, r));
        a + *r as usize
    });
    done(&it);
    verdict(len);
    let mut other = 0usize;
    let mut want = 0usize;
    let mut p = 0;
    while p < LEN {
        if p < len {
            want += p + 1;
            if unsafe { VH_ENV_THEIRS[p] } == 1 {
                other += p + 1;
            }
        }
        p += 1;
    }
    assert!(sum + other == want, "C12: combining the fold results of all parties does not give the sequential fold");
}

// @verif family=ENV hook=1 thorough=C12,C06 timeout=1800 owner=C12
// @bounds kind=&[u8] len<=3; for_each(n) with n in [1,4] while another party performs <=2 actions (pulls or skip_to_end) at arbitrary access points: nothing visited twice, the call returns
#[kani::proof]
#[kani::unwind(7)]
fn env_for_each_skip_slice() {
    let len: usize = kani::any();
    kani::assume(len <= LEN);
    let data: [u8; LEN] = kani::any();
    let src = &data[..len];
    let it = src.into_con_iter();
    setup(src, &it, true);
    let n: usize = kani::any();
    kani::assume(n >= 1 && n <= LEN + 1);
    it.for_each(n, |r| mine(pos_in(src, r)));
    done(&it);
    verdict(len);
}

// @verif family=ENV hook=1 thorough=C12,C01,C02 timeout=1800 owner=C12
// @bounds kind=Range<usize> start<=5 len<=3; for_each(n) / enumerate_for_each(n) with n in [1,4] while another party performs <=2 complete pulls at arbitrary access points
#[kani::proof]
#[kani::unwind(7)]
fn env_loops_range() {
    let len: usize = kani::any();
    kani::assume(len <= LEN);
    let start: usize = kani::any();
    kani::assume(start <= 5);
    let it = IntoConcurrentIter::into_con_iter(start..start + len);
    setup(&[], &it, false);
    let n: usize = kani::any();
    kani::assume(n >= 1 && n <= LEN + 1);
    if kani::any() {
        it.for_each(n, |v| mine(v.wrapping_sub(start)));
    } else {
        it.enumerate_for_each(n, |i, v| {
            let p = v.wrapping_sub(start);
            if p != i {
                unsafe { VH_ENV_BAD = true };
            }
            mine(p)
        });
    }
    done(&it);
    verdict(len);
}

// @verif family=ENV hook=1 thorough=C12,C01,C08 timeout=1800 owner=C12
// @bounds kind=Vec<Tracked> len<=3 (capacity 4); for_each(n) / fold(n) with n in [1,4] while another party performs <=2 complete pulls at arbitrary access points (its elements are dropped); then drop
#[kani::proof]
#[kani::unwind(7)]
fn env_loops_vec() {
    let len: usize = kani::any();
    kani::assume(len <= LEN);
    let mut v = Vec::with_capacity(LEN + 1);
    let mut i = 0;
    while i < len {
        v.push(Tracked(i as u8));
        i += 1;
    }
    let it = v.into_con_iter();
    setup(&[], &it, false);
    let n: usize = kani::any();
    kani::assume(n >= 1 && n <= LEN + 1);
    if kani::any() {
        it.for_each(n, |t| mine(t.0 as usize));
    } else {
        let cnt = it.fold(n, 0usize, |a, t| {
            mine(t.0 as usize);
            a + 1
        });
        let mut mine_total = 0usize;
        let mut p = 0;
        while p < LEN {
            mine_total += unsafe { VH_ENV_MINE[p] } as usize;
            p += 1;
        }
        assert!(cnt == mine_total, "C12: fold result does not match the elements it visited");
    }
    done(&it);
    verdict(len);
    drop(it);
    let mut p = 0;
    while p < LEN {
        if p < len {
            assert!(drops(p) == 1, "C08 C12: every element visited by the loop or pulled by the other party is destroyed exactly once");
        }
        p += 1;
    }
}
