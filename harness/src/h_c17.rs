//! C17: std preconditions. Kani does not evaluate `ub_checks`, so the documented, locally checkable
//! part of the contract of `Vec::from_raw_parts` (length <= capacity; the pinned toolchain aborts on it
//! in builds with debug assertions) is asserted by a stub (`-Z stubbing`), and the SEQ histories over the
//! consuming kinds are run against it.
use crate::common::*;
use crate::seq::*;
use orx_concurrent_iter::*;

unsafe fn checked_from_raw_parts<T>(ptr: *mut T, length: usize, capacity: usize) -> Vec<T> {
    assert!(
        length <= capacity,
        "C17: Vec::from_raw_parts requires length <= capacity (std precondition; aborts in builds with debug assertions)"
    );
    Vec::from_raw_parts_in(ptr, length, capacity, std::alloc::Global)
}

static mut VH_MOVED3: [u8; LMAX] = [0; LMAX];
fn take(t: Tracked) -> usize {
    let p = t.0 as usize;
    unsafe { VH_MOVED3[p] += 1 };
    core::mem::forget(t);
    p
}
fn mkvec(len: usize, cap: usize) -> Vec<Tracked> {
    let mut v = Vec::with_capacity(cap);
    let mut i = 0;
    while i < len {
        v.push(Tracked(i as u8));
        i += 1;
    }
    v
}
fn info(len: usize) -> KindInfo {
    KindInfo { len, sized: true, nmax: len + 2, ops: 0, ends: 0b111, nbuf: 0, lying: false }
}
const S_ANYCHUNK: &[u16] = &[M_CHUNK | M_BUF, M_SINGLE | M_LEN];

// @verif family=SEQ stubbing=1 quick=C17 timeout=1500 owner=C17
// @bounds kind=Vec<Tracked> len<=3 capacity 4; prefix<=3 next(); next_chunk(n<=len+2) or buffered_iter(n) x1-2, partly consumed; single/len query; end in {drop, into_seq_iter all/partly}; Vec::from_raw_parts stubbed to assert length <= capacity
#[kani::proof]
#[kani::unwind(7)]
#[kani::stub(std::vec::Vec::from_raw_parts, checked_from_raw_parts)]
fn precond_vec() {
    let len: usize = kani::any();
    kani::assume(len <= 3);
    let m = run(mkvec(len, 4).into_con_iter(), info(len), 3, S_ANYCHUNK, take);
    kani::cover!(m.w_partial, "W: a chunk was only partly consumed");
    kani::cover!(m.w_short_chunk, "W: a short final chunk happened");
}

// @verif family=SEQ stubbing=1 quick=C17 timeout=1500 owner=C17
// @bounds kind=[Tracked;3]; prefix<=3 next(); next_chunk(n<=5) or buffered_iter(n) x1-2, partly consumed; single/len query; end in {drop, into_seq_iter all/partly}; Vec::from_raw_parts stubbed to assert length <= capacity
#[kani::proof]
#[kani::unwind(7)]
#[kani::stub(std::vec::Vec::from_raw_parts, checked_from_raw_parts)]
fn precond_array() {
    let m = run([Tracked(0), Tracked(1), Tracked(2)].into_con_iter(), info(3), 3, S_ANYCHUNK, take);
    kani::cover!(m.w_partial, "W: a chunk was only partly consumed");
    kani::cover!(m.w_short_chunk, "W: a short final chunk happened");
}
