#!/bin/sh
# Runs the repository's pinned test suite with the verification guard OFF and compares the set of
# passing tests with /root/.vp/BASELINE.json (stable_pass). Exit 0 iff every baseline test passes.
unset RUSTFLAGS CARGO_ENCODED_RUSTFLAGS
cd /repo || exit 2
CARGO_NET_OFFLINE=true cargo nextest run --workspace --no-fail-fast --tool-config-file pb:/w/lib/nextest.toml \
  --profile pb --test-threads 8 --offline >/tmp/verif_baseline_nextest.log 2>&1
python3 - <<'PY'
import json, sys, xml.etree.ElementTree as ET
base = set(json.load(open('/root/.vp/BASELINE.json'))['stable_pass'])
root = ET.parse('/repo/target/nextest/pb/junit.xml').getroot()
passed = set()
for ts in root.iter('testsuite'):
    for tc in ts.iter('testcase'):
        ok = not any(ch.tag in ('failure', 'error') for ch in tc)
        name = f"{ts.get('name')}::{tc.get('name')}"
        if ok:
            passed.add(name)
# baseline names look like "orx-concurrent-iter::<binary>::<test path>"
def norm(n):
    return n.replace('$', '::')
passed_n = {norm(p) for p in passed}
missing = sorted(b for b in base if b not in passed_n and b not in passed)
print(f"baseline tests: {len(base)}  passed now: {len(passed)}  baseline tests not passing: {len(missing)}")
for m in missing[:20]:
    print("  MISSING", m)
sys.exit(1 if missing else 0)
PY
