#!/usr/bin/env python3
"""Generates /verif/MANIFEST.json from the table below (single source of truth for the interface)."""
import json, os, subprocess

ROOT = os.path.dirname(os.path.dirname(os.path.abspath(__file__)))

TRUST = ("Trusted: Kani 0.68/CBMC 6.11 model of Rust+std (atomics = sequentially consistent RMWs, allocation "
         "never fails), the 100-line atomic shim, the harness oracles; bounds as listed in the evidence per harness.")

# id -> (claimed?, level text, technique, level_note / NA reason, design_ref)
P = {
 "C01": (True, "Bounded model checking of the real code: for known-size kinds one inductive step from an arbitrary counter "
         "state (all histories/threads/interleavings of single-RMW pulls, len<=4), plus symbolic single-threaded histories, "
         "plus trace-guess-and-validate BMC of the ticket protocol (2 threads) for the Iterator wrapper.",
         "Kani/CBMC SAT-based BMC: inductive step + bounded histories + symbolic interleavings (TBMC)", TRUST, "DESIGN.md §2,§3 C01"),
 "C02": (True, "Same harnesses as C01 with index/position oracles (pointer identity, element ids, probe positions).",
         "Kani/CBMC SAT-based BMC with position oracles", TRUST, "DESIGN.md §3 C02"),
 "C03": (True, "Chunk contract decided for every counter state (IND) and for histories with partly consumed buffered chunks (SEQ); "
         "wrapper under symbolic interleavings (TBMC).", "Kani/CBMC SAT-based BMC", TRUST, "DESIGN.md §3 C03"),
 "C04": (True, "Linearization at the single RMW shown per operation (IND: exactly one fetch_add, result determined by its value); "
         "sequential histories equal the reference cursor (SEQ); real-time order over symbolic interleavings for the wrapper (TBMC).",
         "Kani/CBMC SAT-based BMC", TRUST + " The reduction 'single RMW => linearizable at it' is a meta-argument.", "DESIGN.md §3 C04"),
 "C05": (True, "From every counter state at or past the end every pull reports the end (IND, counter up to 2^62); histories with pulls "
         "after the end (SEQ); wrapper under interleavings (TBMC).", "Kani/CBMC SAT-based BMC", TRUST, "DESIGN.md §3 C05"),
 "C06": (True, "skip_to_end followed by pulls in symbolic histories for every kind (SEQ), single-store check from every state (IND), "
         "skip racing with pulls for the wrapper (TBMC).", "Kani/CBMC SAT-based BMC", TRUST, "DESIGN.md §3 C06"),
 "C07": (True, "Happens-before (C11 release/acquire rules over the memory orderings recorded at the real call sites) and ticket "
         "exclusivity decided over all interleavings of bounded 2-thread configurations of the real ConIterOfIter code (TBMC).",
         "Kani/CBMC SAT-based BMC over guessed-and-validated SC traces + vector clocks", TRUST + " Values are SC; only ordering edges follow C11.", "DESIGN.md §3 C07"),
 "C08": (True, "Drop/move ledger over symbolic histories for Vec, array and an owning wrapped iterator, and an inductive ledger from "
         "every counter state.", "Kani/CBMC SAT-based BMC with a destructor ledger", TRUST, "DESIGN.md §3 C08"),
 "C09": (True, "Known-size kinds: every operation is exactly one atomic access and all loops unwind within a bound independent of other "
         "threads (IND) = lock-freedom; wrapper: no schedule of the bounded configurations leaves the last thread waiting forever "
         "on a static memory (TBMC solo phase), sequential histories never spin (SEQ unwinding assertions).",
         "Kani/CBMC SAT-based BMC; unwinding assertions; TBMC solo-phase hang detection", TRUST, "DESIGN.md §3 C09"),
 "C10": (True, "Remainder of into_seq_iter compared with the reference cursor after symbolic histories, every kind.",
         "Kani/CBMC SAT-based BMC", TRUST, "DESIGN.md §3 C10"),
 "C11": (True, "try_get_len/has_more compared with later deliveries in symbolic histories; exact formula from every counter state (IND); "
         "queries racing with pulls (TBMC).", "Kani/CBMC SAT-based BMC", TRUST, "DESIGN.md §3 C11"),
 "C12": (True, "for_each / enumerate_for_each / fold after symbolic prefixes on every kind (SEQ) and with foreign pulls interleaved at "
         "every atomic access (ENV).", "Kani/CBMC SAT-based BMC with a re-entrant environment at access points", TRUST, "DESIGN.md §3 C12"),
 "C13": (True, "cloned()/copied(): same inductive step as the underlying iterator (same counter accesses, same positions) with a clone ledger, "
         "and lock-step differential histories.", "Kani/CBMC SAT-based BMC, differential", TRUST, "DESIGN.md §3 C13"),
 "C14": (True, "Two solver-decided clauses: (a) every unsafe impl Send/Sync of the crate entails the auto-trait bounds its fields require "
         "(propositional encoding regenerated from the source, z3 cross-checked with cvc5; counterexamples replayed by compiling a generated "
         "client program); (b) short sequences of the safe low-level calls with a drop ledger (Kani). The borrow-lifetime clause is decided by "
         "the Rust borrow checker and is NOT covered by this technique.",
         "z3/cvc5 propositional entailment over parsed struct/impl declarations + Kani BMC", TRUST + " Structural auto-trait rules in driver/extra.py.", "DESIGN.md §3 C14"),
 "C15": (True, "CBMC's memory-leak check (every malloc'ed object freed at exit) over symbolic histories on Vec, array and owning "
         "wrapped iterators, including heap-owning elements and a repeated create/consume/drop round.",
         "Kani/CBMC SAT-based BMC with --memory-leak-check", TRUST, "DESIGN.md §3 C15"),
 "C16": (True, "Fully symbolic 64-bit range bounds and chunk sizes (0..usize::MAX) on every kind: no overflow reachable in the checked "
         "profile, exact values/indices/lengths, zero-size semantics, documented panics for chunk size 0.",
         "Kani/CBMC SAT-based BMC over full-width bit-vectors", TRUST + " Cumulative requests >= usize::MAX are known finding KF-C16-wrap.", "DESIGN.md §3 C16"),
 "C17": (True, "Checked profile (overflow checks, debug assertions, bounds checks) of the crate code is panic-free on ordinary histories, "
         "so the unchecked profile executes the same statements with the same values.", "Kani/CBMC SAT-based BMC of the checked profile",
         TRUST + " std preconditions (ub_checks) are not evaluated by Kani; see DESIGN.md.", "DESIGN.md §3 C17"),
 "C18": (False, "", "", "Kani/CBMC model a panic as abort: unwinding (and hence what runs or is dropped while unwinding) cannot be encoded; the no-hang clause under a halt model is not built yet", ""),
 "C19": (True, "Two iterators and a clone over one collection (Vec, array + sub-slice, range) under symbolic interleaved histories, one "
         "reference cursor each; pointer identity of delivered references; collection compared with a copy afterwards.",
         "Kani/CBMC SAT-based BMC", TRUST, "DESIGN.md §3 C19"),
}


def main():
    override = {}
    ov = os.path.join(ROOT, "tools", "manifest_overrides.json")
    if os.path.exists(ov):
        override = json.load(open(ov))
    checks, na = [], []
    for pid in sorted(P):
        claimed, text, tech, note, ref = P[pid]
        o = override.get(pid, {})
        claimed = o.get("claimed", claimed)
        if not claimed:
            na.append({"property_id": pid, "reason": o.get("reason", note)})
            continue
        checks.append({
            "property_id": pid,
            "quick_cmd": f"./check {pid} --tier quick",
            "thorough_cmd": f"./check {pid} --tier thorough",
            "evidence_file": f"/verif/evidence/{pid}.json",
            "replay_cmd_template": "./check --replay {path}",
            "engine": "kani-bmc",
            "level_claimed": {"category": "model_checking", "text": o.get("text", text), "design_ref": ref},
            "level_note": o.get("note", note),
            "technique": o.get("technique", tech),
        })
    hook_commits = subprocess.run(["git", "-C", "/repo", "log", "--format=%h", "--grep=^verif hook"],
                                  capture_output=True, text=True).stdout.split()
    m = {
        "version": 1,
        "setup_cmd": "./check --warm --jobs 8",
        "hooks": {
            "guard": "--cfg orx_concurrent_iter_verif",
            "enable": "RUSTFLAGS='--cfg orx_concurrent_iter_verif' cargo kani ... (the driver sets it for harnesses marked hook=1)",
            "baseline_off_cmd": "/verif/tools/baseline_off.sh",
            "source_commits": hook_commits,
            "add_only": True,
        },
        "engines": [
            {"name": "kani-bmc", "path": "/verif/harness", "serves_properties": [c["property_id"] for c in checks],
             "kind_free_text": "Kani 0.68 / CBMC 6.11 (CaDiCaL) harness crate with a path dependency on /repo; driver /verif/check"},
        ],
        "checks": checks,
        "not_applicable": na,
        "notes": "exit 0 = held within the stated bounds; exit 1 = replayed violation; exit 2 = inconclusive (never success). "
                 "Known findings are listed in /verif/known_findings.json.",
    }
    json.dump(m, open(os.path.join(ROOT, "MANIFEST.json"), "w"), indent=1)
    print("wrote MANIFEST.json:", len(checks), "checks,", len(na), "not applicable")


if __name__ == "__main__":
    main()
