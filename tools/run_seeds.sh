#!/bin/bash
# Applies every seeded change under /verif/seeded/ to /repo in turn, runs the quick check of the property it
# breaks (plus extra properties given as "<seed-dir-prefix>:<ID>" arguments), undoes it, and records the verdicts.
# /repo must not be used by anything else while this runs.
OUT=/verif/seeded/RESULTS.md
echo "# Seeded changes against the quick checks ($(date -u +%FT%TZ), /repo $(git -C /repo rev-parse --short HEAD))" > $OUT
echo >> $OUT
echo "| seed | check | exit | verdict lines |" >> $OUT
echo "|---|---|---|---|" >> $OUT
cd /verif
for d in seeded/*/; do
  s=$(basename $d)
  [ -f $d/patch.diff ] || continue
  if [ -n "$ONLY" ] && ! echo "$s" | grep -q "$ONLY"; then continue; fi
  prop=${s%%-*}
  if ! git -C /repo apply --check $PWD/$d/patch.diff 2>/dev/null; then echo "| $s | - | - | patch does not apply to HEAD |" >> $OUT; continue; fi
  git -C /repo apply $PWD/$d/patch.diff
  ./check $prop --tier quick > /tmp/seedrun_$s.log 2>&1; rc=$?
  git -C /repo checkout -- . ; git -C /repo status --short | grep -v '^??' | head -2
  v=$(grep -E "^VIOLATION|^INCONCLUSIVE" /tmp/seedrun_$s.log | head -4 | sed 's/|/\\|/g' | tr '\n' ';' | cut -c1-400)
  echo "| $s | ./check $prop --tier quick | $rc | $v |" >> $OUT
  echo "$s rc=$rc"
done
