#!/bin/bash
# Runs every claimed check (tier $1, default quick) in /verif against /repo and records the exit codes.
TIER=${1:-quick}
cd "$(dirname "$0")/.."
OUT=/tmp/run_all_$TIER.out
: > $OUT
ALL=$(python3 -c "import json; print(' '.join(c['property_id'] for c in json.load(open('MANIFEST.json'))['checks']))")
for p in ${PROPS:-$ALL}; do
  t0=$(date +%s)
  ./check $p --tier $TIER > /tmp/run_all_${TIER}_$p.log 2>&1; rc=$?
  echo "$p rc=$rc $(( $(date +%s) - t0 ))s $(grep -c '^KNOWN-FINDING' /tmp/run_all_${TIER}_$p.log) known; $(grep -E '^VIOLATION|^INCONCLUSIVE' /tmp/run_all_${TIER}_$p.log | head -2 | cut -c1-200 | tr '\n' ';')" | tee -a $OUT
done
