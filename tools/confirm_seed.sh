#!/bin/bash
# usage: confirm_seed.sh <seed worktree> <seed id> [demo env prefix]
# Confirms a seeded change in a FRESH scratch worktree of /repo's HEAD: the demo passes without the patch,
# fails with it, and the pinned test-suite still passes with it. Stores it under /verif/seeded/<id>/.
SEED=$1; ID=$2; DEMOENV=${3:-}; PROFILE=${4:---release}
W=/tmp/confirm_$ID
git -C /repo worktree remove --force $W 2>/dev/null; rm -rf $W
git -C /repo worktree add -q --detach $W HEAD || exit 2
mkdir -p $W/target
cp -r $SEED/tests/demo_seed* $W/tests/
cd $W
run_demo() { env $DEMOENV CARGO_NET_OFFLINE=true cargo test --offline $PROFILE --test demo_seed > $W/target/demo_$1.log 2>&1; echo $?; }
RC_WITHOUT=$(run_demo without)
git apply $SEED/patch.diff || { echo "patch does not apply"; exit 2; }
RC_WITH=$(run_demo with)
/tmp/seedtools/baseline.sh $W > $W/target/baseline.txt 2>&1; RC_BASE=$?
echo "demo without patch rc=$RC_WITHOUT (want 0); with patch rc=$RC_WITH (want !=0); baseline rc=$RC_BASE (want 0): $(tail -1 $W/target/baseline.txt | head -c 200)"
grep -E "^test result|^test .* (FAILED|ok)$" $W/target/demo_with.log | head -8
D=/verif/seeded/$ID
mkdir -p $D
cp $SEED/patch.diff $D/patch.diff
cp $SEED/tests/demo_seed.rs $D/demo_seed.rs
for x in $SEED/tests/demo_seed_*; do [ -e "$x" ] && cp -r "$x" $D/; done
python3 - "$SEED" "$D" "$RC_WITHOUT" "$RC_WITH" "$RC_BASE" "$DEMOENV" "$PROFILE" <<'PY'
import json, sys, subprocess
seed, d, rwo, rw, rb, denv, prof = sys.argv[1:8]
try:
    m = json.load(open(seed + '/meta.json'))
except Exception:
    m = {}
head = subprocess.run(['git','-C','/repo','rev-parse','--short','HEAD'],capture_output=True,text=True).stdout.strip()
m.update({"confirmed_on_repo_head": head,
          "confirmed": {"demo_without_patch_rc": int(rwo), "demo_with_patch_rc": int(rw), "baseline_with_patch_rc": int(rb)},
          "what_i_ran": ["git worktree add /tmp/confirm_<id> HEAD; copy demo to tests/demo_seed.rs",
                         (denv + " " if denv else "") + "cargo test --offline " + prof + " --test demo_seed   (without patch)",
                         "git apply patch.diff; same command (with patch)",
                         "cargo nextest run ... (pinned suite) compared with BASELINE.json stable_pass"]})
json.dump(m, open(d + '/meta.json', 'w'), indent=1)
PY
cd /; git -C /repo worktree remove --force $W; rm -rf $W
