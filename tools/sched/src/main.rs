//! Native deterministic scheduler for `ConIterOfIter` (built with `--cfg orx_concurrent_iter_verif`).
//!
//! Real threads run real operations on ONE shared concurrent iterator; the atomic-access hook of the
//! crate and the wrapped probe iterator block every thread until the given schedule says it is its turn.
//! A schedule is a list of thread ids, one entry per step; a step is one atomic access of the crate, or
//! the entry of the wrapped iterator's `next`, or its exit. After the schedule is used up the threads run
//! free. Used to replay solver-found interleavings (TBMC) against the real code with real threads, and to
//! demonstrate schedule-dependent defects.
//!
//! usage: orx-verif-sched <len> <hint 0|1|2> <schedule: comma separated thread ids> <thread ops>...
//!   thread ops: '+'-separated list of  next | nextid | chunk:N | buf:N | skip | len
//! prints one JSON object with the per-thread results and the observations.
use orx_concurrent_iter::*;
use std::cell::Cell;
use std::sync::atomic::{AtomicBool, AtomicUsize, Ordering};
use std::sync::{Condvar, Mutex};

struct Sched {
    order: Vec<usize>,
    pos: usize,
    finished: Vec<bool>,
    log: Vec<String>,
    step_no: usize,
}

static SCHED: Mutex<Option<Sched>> = Mutex::new(None);
static CV: Condvar = Condvar::new();
static IN_NEXT: [AtomicBool; 8] = [const { AtomicBool::new(false) }; 8];
static OVERLAP: AtomicBool = AtomicBool::new(false);
static PROBE_POS: AtomicUsize = AtomicUsize::new(0);
static PROBE_LEN: AtomicUsize = AtomicUsize::new(0);

thread_local! {
    static TID: Cell<usize> = const { Cell::new(usize::MAX) };
    /// step numbers of the first / last scheduled step of the running operation
    static OPF: Cell<usize> = const { Cell::new(usize::MAX) };
    static OPL: Cell<usize> = const { Cell::new(0) };
}

/// Blocks until the schedule says it is this thread's turn; returns the global step number.
fn gate(what: &str) -> usize {
    let me = TID.with(|t| t.get());
    let mut g = SCHED.lock().unwrap();
    loop {
        let s = g.as_mut().unwrap();
        if me == usize::MAX {
            let n = s.step_no;
            s.step_no += 1;
            return n;
        }
        // entries of finished threads are skipped
        while s.pos < s.order.len() && s.finished[s.order[s.pos]] {
            s.pos += 1;
        }
        if s.pos >= s.order.len() || s.order[s.pos] == me {
            if s.pos < s.order.len() {
                s.pos += 1;
            }
            let n = s.step_no;
            s.step_no += 1;
            s.log.push(format!("{n}:t{me}:{what}"));
            CV.notify_all();
            OPF.with(|c| {
                if c.get() == usize::MAX {
                    c.set(n)
                }
            });
            OPL.with(|c| c.set(n));
            return n;
        }
        g = CV.wait(g).unwrap();
    }
}

#[no_mangle]
pub fn orx_verif_atomic(cell: *mut usize, kind: u32, ord: u32, operand: usize) -> usize {
    let a = unsafe { AtomicUsize::from_ptr(cell) };
    let _n = gate(match kind {
        0 => "load",
        1 => "store",
        _ => "fetch_add",
    });
    let _ = ord;
    match kind {
        0 => a.load(Ordering::SeqCst),
        1 => a.swap(operand, Ordering::SeqCst),
        _ => a.fetch_add(operand, Ordering::SeqCst),
    }
}

/// The wrapped sequential iterator: yields its positions; entering and leaving `next` are scheduled steps.
struct SProbe {
    hint: u8,
}

impl Iterator for SProbe {
    type Item = usize;
    fn next(&mut self) -> Option<usize> {
        let me = TID.with(|t| t.get());
        gate("next-enter");
        for (i, f) in IN_NEXT.iter().enumerate() {
            if i != me && f.load(Ordering::SeqCst) {
                OVERLAP.store(true, Ordering::SeqCst);
            }
        }
        if me < 8 {
            IN_NEXT[me].store(true, Ordering::SeqCst);
        }
        gate("next-exit");
        let p = PROBE_POS.load(Ordering::SeqCst);
        let r = if p < PROBE_LEN.load(Ordering::SeqCst) {
            PROBE_POS.store(p + 1, Ordering::SeqCst);
            Some(p)
        } else {
            None
        };
        if me < 8 {
            IN_NEXT[me].store(false, Ordering::SeqCst);
        }
        r
    }
    fn size_hint(&self) -> (usize, Option<usize>) {
        let rem = PROBE_LEN.load(Ordering::SeqCst) - PROBE_POS.load(Ordering::SeqCst).min(PROBE_LEN.load(Ordering::SeqCst));
        match self.hint {
            0 => (rem, Some(rem)),
            1 => (0, Some(rem)),
            _ => (0, None),
        }
    }
}

fn main() {
    let args: Vec<String> = std::env::args().collect();
    let len: usize = args[1].parse().unwrap();
    let hint: u8 = args[2].parse().unwrap();
    let order: Vec<usize> = args[3].split(',').filter(|x| !x.is_empty()).map(|x| x.parse().unwrap()).collect();
    let scripts: Vec<Vec<String>> = args[4..].iter().map(|a| a.split('+').map(|x| x.to_string()).collect()).collect();
    let nt = scripts.len();
    PROBE_LEN.store(len, Ordering::SeqCst);
    *SCHED.lock().unwrap() = Some(Sched { order, pos: 0, finished: vec![false; nt], log: vec![], step_no: 0 });
    let it = SProbe { hint }.into_con_iter();
    let results: Vec<Vec<String>> = std::thread::scope(|s| {
        let hs: Vec<_> = scripts
            .iter()
            .enumerate()
            .map(|(t, ops)| {
                let it = &it;
                s.spawn(move || {
                    TID.with(|c| c.set(t));
                    let mut out = vec![];
                    for op in ops {
                        OPF.with(|c| c.set(usize::MAX));
                        let r = if op == "next" {
                            match it.next() {
                                None => "none".to_string(),
                                Some(v) => format!("some:{v}:{v}:1"),
                            }
                        } else if op == "nextid" {
                            match it.next_id_and_value() {
                                None => "none".to_string(),
                                Some(x) => format!("some:{}:{}:1", x.idx, x.value),
                            }
                        } else if let Some(n) = op.strip_prefix("chunk:") {
                            match it.next_chunk(n.parse().unwrap()) {
                                None => "none".to_string(),
                                Some(c) => {
                                    let vals: Vec<usize> = c.values.collect();
                                    format!("chunk:{}:{}", c.begin_idx, vals.iter().map(|v| v.to_string()).collect::<Vec<_>>().join("/"))
                                }
                            }
                        } else if let Some(n) = op.strip_prefix("buf:") {
                            let mut b = it.buffered_iter(n.parse().unwrap());
                            let r = match b.next() {
                                None => "none".to_string(),
                                Some(c) => {
                                    let begin = c.begin_idx;
                                    let vals: Vec<usize> = c.values.collect();
                                    format!("chunk:{}:{}", begin, vals.iter().map(|v| v.to_string()).collect::<Vec<_>>().join("/"))
                                }
                            };
                            r
                        } else if op == "skip" {
                            it.skip_to_end();
                            "skipped".to_string()
                        } else {
                            format!("len:{:?}:{:?}", it.try_get_len(), it.has_more())
                        };
                        let (first, last) = (OPF.with(|c| c.get()), OPL.with(|c| c.get()));
                        out.push(format!("{op}={r}@{first}-{last}"));
                    }
                    let mut g = SCHED.lock().unwrap();
                    g.as_mut().unwrap().finished[t] = true;
                    CV.notify_all();
                    out
                })
            })
            .collect();
        hs.into_iter().map(|h| h.join().unwrap()).collect()
    });
    let g = SCHED.lock().unwrap();
    let s = g.as_ref().unwrap();
    println!(
        "{{\"overlap\": {}, \"results\": {:?}, \"steps\": {:?}}}",
        OVERLAP.load(Ordering::SeqCst),
        results,
        s.log
    );
}
