#!/usr/bin/env python3
"""Rebuilds /verif/seeded/RESULTS.md from the per-seed logs of tools/run_seeds.sh (/tmp/seedrun_<seed>.log) and
the exit codes recorded in the given run_seeds outputs (later files override earlier ones)."""
import re, sys, os, glob
rc = {}
for path in sys.argv[1:]:
    if os.path.exists(path):
        for line in open(path):
            m = re.match(r"(C\d\d-\S+) rc=(\d+)", line)
            if m:
                rc[m.group(1)] = m.group(2)
out = ["# Seeded changes against the quick checks of the real driver",
       "",
       "Each patch was applied to /repo (`git -C /repo apply`), the quick check of the property it breaks was run",
       "(`./check <ID> --tier quick`), and the patch was undone (`git -C /repo checkout -- .`). Exit 1 = a",
       "VIOLATION was reported. Seeds that were re-run after a check had been strengthened show the latest verdict",
       "(DESIGN.md section 5 says what was strengthened and why).",
       "",
       "| seed | check | exit | verdict lines |", "|---|---|---|---|"]
for d in sorted(glob.glob("/verif/seeded/C*/")):
    s = os.path.basename(d.rstrip("/"))
    log = f"/tmp/seedrun_{s}.log"
    v = ""
    if os.path.exists(log):
        v = "; ".join(l.strip()[:160] for l in open(log) if l.startswith(("VIOLATION", "INCONCLUSIVE")))[:500]
    out.append(f"| {s} | ./check {s.split('-')[0]} --tier quick | {rc.get(s, '?')} | {v.replace('|', '/')} |")
open("/verif/seeded/RESULTS.md", "w").write("\n".join(out) + "\n")
print(len(out) - 9, "rows")
