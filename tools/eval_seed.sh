#!/bin/sh
# usage: eval_seed.sh <patched crate dir> <harness> [<harness> ...]
# Runs harnesses of /verif/harness against a patched COPY of the crate (not /repo): quick triage of a
# seeded change without disturbing checks that are running against /repo. Not evidence.
SEED=$1; shift
ID=$(basename $SEED)
W=/tmp/eval_$ID
ulimit -v 42000000
rm -rf $W/crate; mkdir -p $W/crate
cp -r /verif/harness/Cargo.toml /verif/harness/Cargo.lock /verif/harness/.cargo /verif/harness/src $W/crate/
sed -i "s#path = \"/repo\"#path = \"$SEED\"#" $W/crate/Cargo.toml
i=0
for H in "$@"; do
  i=$((i+1))
  case $H in h_ind*|h_tbmc*|h_env*) FL="--cfg orx_concurrent_iter_verif";; *) FL="";; esac
  EXTRA=""
  case $H in h_more::leak*) EXTRA="--cbmc-args --memory-leak-check";; esac
  if [ -n "$FL" ]; then export RUSTFLAGS="$FL"; else unset RUSTFLAGS; fi
  ( cd $W/crate && CARGO_NET_OFFLINE=true timeout ${EVAL_TIMEOUT:-1500} cargo kani --harness $H --exact --target-dir $W/tgt$i -Z unstable-options -Z stubbing --output-format terse $EXTRA > $W/$H.log 2>&1; echo "== $H: $(grep -a -E 'VERIFICATION:' $W/$H.log) $(grep -a 'cover properties satisfied' $W/$H.log)"; grep -a 'Failed Checks' $W/$H.log | sort | uniq -c ) &
done
wait
