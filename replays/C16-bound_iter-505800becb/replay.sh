#!/bin/sh
# re-runs this counterexample natively against /repo's current tree
exec /verif/check --replay /verif/replays/C16-bound_iter-505800becb
