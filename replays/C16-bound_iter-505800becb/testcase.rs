/// Test generated for harness `h_bound::bound_iter` 
///
/// Check for `assertion`: ""C16: a chunk pull of size zero must leave the iterator unchanged""

#[test]
fn kani_concrete_playback_bound_iter_2803808949307079140() {
    let concrete_vals: Vec<Vec<u8>> = vec![
        // 3ul
        vec![3, 0, 0, 0, 0, 0, 0, 0],
        // 2ul
        vec![2, 0, 0, 0, 0, 0, 0, 0],
        // 0ul
        vec![0, 0, 0, 0, 0, 0, 0, 0],
    ];
    kani::concrete_playback_run(concrete_vals, bound_iter);
}
