#!/bin/sh
# re-runs this counterexample natively against /repo's current tree
exec /verif/check --replay /verif/replays/C16-bound_range-2c0cb2e955
