/// Test generated for harness `h_bound::bound_range` 
///
/// Check for `assertion`: ""C16 C06 C11: try_get_len after skip_to_end""

#[test]
fn kani_concrete_playback_bound_range_1773265849948039289() {
    let concrete_vals: Vec<Vec<u8>> = vec![
        // 16140901064495857663ul
        vec![255, 255, 255, 255, 255, 255, 255, 223],
        // 18446744073709551615ul
        vec![255, 255, 255, 255, 255, 255, 255, 255],
        // 2ul
        vec![2, 0, 0, 0, 0, 0, 0, 0],
        // 4611686018427387903ul
        vec![255, 255, 255, 255, 255, 255, 255, 63],
        // 1152921504606846976ul
        vec![0, 0, 0, 0, 0, 0, 0, 16],
        // 1
        vec![1],
    ];
    kani::concrete_playback_run(concrete_vals, bound_range);
}
