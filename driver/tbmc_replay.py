"""Independent replay of a TBMC counterexample: the solver's trace is turned into a schedule and executed
by REAL threads on ONE real ConIterOfIter under the native deterministic scheduler (tools/sched); the
property is then re-evaluated on what the threads actually received. Nothing of the harness's trace
validation is reused: if the encoding were wrong, the native run would simply behave differently."""
import json, os, re, subprocess

ROOT = os.path.dirname(os.path.dirname(os.path.abspath(__file__)))
SCHED = os.path.join(ROOT, "tools", "sched")
CACHE = os.path.join(ROOT, ".cache")
M = 7          # events per thread (tbmc.rs)
TMAX = 4
OPNAMES = {0: "nextid", 1: "chunk", 2: "buf", 3: "skip", 4: "len", 5: "next"}  # 6, 7 (for_each) are not replayable by tools/sched
BUFN = 2


def build_sched():
    env = dict(os.environ)
    env["RUSTFLAGS"] = "--cfg orx_concurrent_iter_verif"
    env["CARGO_NET_OFFLINE"] = "true"
    tgt = os.path.join(CACHE, "sched-target")
    r = subprocess.run(["cargo", "build", "--offline", "--release", "--target-dir", tgt], cwd=SCHED, env=env,
                       capture_output=True, text=True)
    exe = os.path.join(tgt, "release", "orx-verif-sched")
    return exe if r.returncode == 0 and os.path.exists(exe) else None


def parse_vals(code):
    vals = []
    for m in re.finditer(r"vec!\[([0-9, ]*)\],", code):
        bs = [int(x) for x in m.group(1).split(",") if x.strip()]
        vals.append(int.from_bytes(bytes(bs), "little"))
    return vals


def decode(code, nt, nops):
    v = parse_vals(code)
    i = 0

    def take():
        nonlocal i
        if i >= len(v):
            raise ValueError("ran out of values")
        x = v[i]
        i += 1
        return x
    length, hint = take(), take()
    events = []
    for t in range(nt):
        c = take()
        for j in range(min(c, M)):
            ts, loc, kind, operand, before, after, pred, ord_, op = (take() for _ in range(9))
            for _ in range(3 * TMAX):
                take()
            take()  # racy
            events.append({"t": t, "j": j, "ts": ts, "loc": loc, "kind": kind, "operand": operand, "before": before,
                           "after": after, "ord": ord_, "op": op})
    ops = [[] for _ in range(nt)]
    order = list(range(nt - 1)) + [nt - 1]
    for t in order:
        for _ in range(nops[t]):
            try:
                op, n = take(), take()
            except ValueError:
                op, n = None, None
            ops[t].append((op, n))
    return {"len": length, "hint": hint, "events": events, "ops": ops}


def schedule_of(tr):
    sched = []
    for e in sorted(tr["events"], key=lambda e: e["ts"]):
        sched.append(e["t"])
        if e["kind"] == 3:  # use of the wrapped iterator = enter + exit
            sched.append(e["t"])
    return sched


def run(code, nt, nops, masks, rdir):
    """-> dict(status='confirmed'|'not-confirmed'|'unavailable', findings=[...], detail=...)"""
    try:
        tr = decode(code, nt, nops)
    except Exception as e:  # noqa
        return {"status": "unavailable", "reason": f"cannot decode the playback values: {e}"}
    exe = build_sched()
    if not exe:
        return {"status": "unavailable", "reason": "tools/sched does not build"}
    scripts = []
    for t in range(nt):
        parts = []
        for (op, n) in tr["ops"][t]:
            if op is None or op not in OPNAMES:
                # a thread whose choices are not part of the counterexample: single-kind masks are unambiguous
                cand = [k for k in OPNAMES if (masks[t] >> k) & 1]
                if len(cand) != 1:
                    return {"status": "unavailable", "reason": "operation choice not recorded in the counterexample"}
                op, n = cand[0], BUFN
            name = OPNAMES[op]
            if name == "chunk":
                name = f"chunk:{max(1, n or 1)}"
            if name == "buf":
                name = f"buf:{BUFN}"
            parts.append(name)
        scripts.append("+".join(parts))
    sched = schedule_of(tr)
    cmd = [exe, str(tr["len"]), str(tr["hint"]), ",".join(map(str, sched))] + scripts
    try:
        r = subprocess.run(cmd, capture_output=True, text=True, timeout=20)
        out = json.loads(r.stdout)
        hung = False
    except subprocess.TimeoutExpired:
        out, hung = None, True
    except Exception as e:  # noqa
        return {"status": "unavailable", "reason": f"scheduler run failed: {e}", "cmd": " ".join(cmd)}
    findings = []
    if hung:
        findings.append("C09: the native run under this schedule does not terminate (a thread waits forever)")
    else:
        findings = evaluate(out, tr["len"])
    detail = {"cmd": " ".join(cmd), "trace": tr, "native": out}
    json.dump(detail, open(os.path.join(rdir, "native-threads-replay.json"), "w"), indent=1)
    return {"status": "confirmed" if findings else "not-confirmed", "findings": findings, "cmd": " ".join(cmd)}


def evaluate(out, length):
    f = []
    if out.get("overlap"):
        f.append("C07: two threads were inside the wrapped iterator's next() at the same time")
    deliv = {}
    ops = []
    for t, res in enumerate(out["results"]):
        for r in res:
            m = re.match(r"([^=]+)=(.*)@(\d+)-(\d+)$", r)
            op, val, first, last = m.group(1), m.group(2), int(m.group(3)), int(m.group(4))
            ent = {"t": t, "op": op, "first": first, "last": last, "pos": [], "none": val == "none", "val": val}
            if val.startswith("some:"):
                _, idx, v, _ = val.split(":")
                if op == "nextid" and int(idx) != int(v):
                    f.append(f"C02: thread {t} received index {idx} with the element of position {v}")
                ent["pos"] = [int(v)]
            elif val.startswith("chunk:"):
                _, begin, vs = val.split(":")
                vs = [int(x) for x in vs.split("/") if x != ""]
                if not vs:
                    f.append(f"C03: thread {t} received an empty chunk")
                for k, x in enumerate(vs):
                    if x != int(begin) + k:
                        f.append(f"C02 C03: thread {t}: chunk element {k} of the chunk at {begin} is the element of position {x}")
                ent["pos"] = vs
            for p in ent["pos"]:
                deliv[p] = deliv.get(p, 0) + 1
                if p >= length:
                    f.append(f"C01: position {p} beyond the source was delivered")
            ops.append(ent)
    for p, c in deliv.items():
        if c > 1:
            f.append(f"C01: position {p} was delivered {c} times")
    skipped = any(o["op"] == "skip" for o in ops)
    any_none = any(o["none"] for o in ops if o["op"] not in ("skip", "len"))
    if any_none and not skipped:
        for p in range(length):
            if deliv.get(p, 0) == 0:
                f.append(f"C01: a thread observed the end although position {p} was never delivered")
    for a in ops:
        for b in ops:
            if a is b or not (a["last"] < b["first"]):
                continue
            pull_a = a["op"] not in ("skip", "len")
            pull_b = b["op"] not in ("skip", "len")
            if pull_a and pull_b and a["pos"] and b["pos"] and max(a["pos"]) >= min(b["pos"]):
                f.append("C04: a pull that returned before another started received larger positions")
            if pull_a and pull_b and a["none"] and b["pos"] and not skipped:
                f.append("C05: a pull delivered after an earlier pull had reported the end")
            if a["op"] == "skip" and pull_b and b["pos"]:
                f.append("C06: a pull that started after skip_to_end returned delivered an element")
            if a["op"] == "skip" and b["op"] == "len" and "No" not in b["val"]:
                f.append("C06 C11: has_more is not No after skip_to_end returned")
            if a["op"] == "len" and "No" in a["val"] and pull_b and b["pos"]:
                f.append("C11: a pull delivered after has_more answered No")
    return sorted(set(f))
