"""Driver for the solver-based checks. See /verif/check for usage and /verif/DESIGN.md §1.3."""
import argparse, collections, concurrent.futures, fcntl, hashlib, json, os, re, resource, shutil
import signal, subprocess, sys, time
import tbmc_replay
import cbmc_playback

ROOT = os.path.dirname(os.path.dirname(os.path.abspath(__file__)))
HARNESS = os.path.join(ROOT, "harness")
CACHE = os.path.join(ROOT, ".cache")
EVID = os.path.join(ROOT, "evidence")
REPLAYS = os.path.join(ROOT, "replays")
KF_FILE = os.path.join(ROOT, "known_findings.json")
REPO = "/repo"
GUARD = "orx_concurrent_iter_verif"
NSLOTS = 16

MEMSAFE_CATS = {"pointer_dereference", "pointer", "array_bounds", "safety_check", "memory-leak",
                "memory_leak", "pointer_arithmetic", "pointer_primitives"}


# ------------------------------------------------------------------------------------------------
# registry: parsed from `// @verif k=v ...` / `// @bounds ...` comments in harness/src/*.rs
class Job:
    def __init__(self, mod, fn, meta, bounds, unwind, src_line):
        self.mod, self.fn, self.meta, self.bounds, self.unwind = mod, fn, meta, bounds, unwind
        self.full = f"{mod}::{fn}"
        self.src_line = src_line
        self.quick = [p for p in meta.get("quick", "").split(",") if p]
        self.thorough = [p for p in meta.get("thorough", "").split(",") if p]
        self.hook = meta.get("hook", "0") == "1"
        self.leak = meta.get("leak", "0") == "1"
        self.timeout = int(meta.get("timeout", "900"))
        self.mem_gb = int(meta.get("mem", "14"))
        # permits out of 8 while running (memory): TBMC harnesses need 8-15 GB resident
        self.weight = int(meta.get("weight", "3" if meta.get("family") == "TBMC" else "1"))
        self.family = meta.get("family", "SEQ")
        # failures located in /repo or std code are only believed after native replay (TBMC)
        self.inrepo_needs_replay = meta.get("inrepo", "exact") == "replay"
        self.optcov = [c for c in meta.get("optcov", "").split("|") if c]
        # checks located in functions whose name contains this string are not believed (TBMC: the first
        # pass of the first thread runs against a guess that the other thread has not accepted yet)
        self.ignorefn = meta.get("ignorefn", "")
        # harness dedicated to one property: every failed check in it (whatever its tag) violates that property
        self.owner = [p for p in meta.get("owner", "").split(",") if p]
        self.stubs = meta.get("stubbing", "0") == "1"
        self.extra = [a for a in meta.get("kani_args", "").split(",") if a]
        # a documented panic that MUST be reported as failed check (e.g. chunk size zero)
        self.expectpanic = meta.get("expectpanic", "").replace("_", " ")

    def serves(self, prop, tier):
        if prop in self.quick:
            return True
        return tier == "thorough" and prop in self.thorough


def parse_registry():
    jobs = []
    src = os.path.join(HARNESS, "src")
    for fname in sorted(os.listdir(src)):
        if not fname.endswith(".rs"):
            continue
        mod = fname[:-3]
        meta, bounds, unwind = None, "", None
        for ln, line in enumerate(open(os.path.join(src, fname)), 1):
            s = line.strip()
            if s.startswith("// @verif"):
                meta = dict(kv.split("=", 1) for kv in s[len("// @verif"):].split())
                bounds, unwind = "", None
            elif s.startswith("// @bounds") and meta is not None:
                bounds += (" " if bounds else "") + s[len("// @bounds"):].strip()
            elif s.startswith("#[kani::unwind(") and meta is not None:
                unwind = int(re.search(r"\((\d+)\)", s).group(1))
            elif meta is not None:
                m = re.match(r"(?:pub )?fn (\w+)\s*\(", s)
                if m:
                    jobs.append(Job(mod, m.group(1), meta, bounds, unwind, ln))
                    meta = None
    return jobs


BITS = {"B_SINGLE": 1, "B_CHUNK": 2, "B_BUF": 4, "B_SKIP": 8, "B_LEN": 16, "B_NEXT": 32, "B_FE1": 64, "B_FE2": 128, "0": 0}


def tbmc_params(job):
    """(nt, nops, masks) of a TBMC harness, read from its run2/run_n call."""
    src = open(os.path.join(HARNESS, "src", job.mod + ".rs")).read()
    m = re.search(r"fn " + job.fn + r"\(\) \{\s*(run2|run_n)\(\[(.*?)\], \[(.*?)\](?:, (\d+))?", src, re.S)
    if not m:
        return None

    def mask(expr):
        v = 0
        for tok in expr.split("|"):
            v |= BITS.get(tok.strip(), 0)
        return v
    masks = [mask(x) for x in m.group(2).split(",")]
    nops = [int(x) for x in m.group(3).split(",")]
    nt = int(m.group(4)) if m.group(1) == "run_n" else 2
    return nt, nops[:nt], masks[:nt]


# ------------------------------------------------------------------------------------------------
def acquire_slot(kind):
    os.makedirs(CACHE, exist_ok=True)
    while True:
        for i in range(NSLOTS):
            path = os.path.join(CACHE, f"tgt-{kind}-{i}")
            os.makedirs(path, exist_ok=True)
            fd = os.open(os.path.join(path, ".slot.lock"), os.O_CREAT | os.O_RDWR)
            try:
                fcntl.flock(fd, fcntl.LOCK_EX | fcntl.LOCK_NB)
                return path, fd
            except OSError:
                os.close(fd)
        time.sleep(0.5)


def release_slot(fd):
    fcntl.flock(fd, fcntl.LOCK_UN)
    os.close(fd)


def base_env(hook):
    env = dict(os.environ)
    env["CARGO_NET_OFFLINE"] = "true"
    env.pop("RUSTFLAGS", None)
    env.pop("CARGO_ENCODED_RUSTFLAGS", None)
    if hook:
        env["RUSTFLAGS"] = f"--cfg {GUARD}"
    return env


def run_cmd(cmd, env, cwd, log, timeout, mem_gb):
    def pre():
        os.setsid()
        if mem_gb > 0:
            lim = mem_gb * (1 << 30)
            resource.setrlimit(resource.RLIMIT_AS, (lim, lim))
    t0 = time.time()
    with open(log, "ab") as lf:
        lf.write(("\n$ " + " ".join(cmd) + "\n").encode())
        lf.flush()
        p = subprocess.Popen(cmd, env=env, cwd=cwd, stdout=lf, stderr=subprocess.STDOUT, preexec_fn=pre)
        try:
            rc = p.wait(timeout=timeout)
            timed_out = False
        except subprocess.TimeoutExpired:
            try:
                os.killpg(p.pid, signal.SIGKILL)
            except ProcessLookupError:
                pass
            p.wait()
            rc, timed_out = -9, True
    return rc, timed_out, time.time() - t0


def kani_cmd(job, tdir, out_json, playback=False):
    cmd = ["cargo", "kani", "--harness", job.full, "--exact", "--target-dir", tdir]
    # -Z stubbing is always on: the crate contains harnesses with #[kani::stub] (C17), which otherwise do
    # not even compile; it has no effect on harnesses without stubs
    z = ["-Z", "unstable-options", "-Z", "stubbing"]
    if playback:
        z += ["-Z", "concrete-playback", "--concrete-playback=print"]
    cmd += z
    if out_json:
        cmd += ["--export-json", out_json]
    cmd += job.extra
    if job.leak:
        cmd += ["--cbmc-args", "--memory-leak-check"]
    return cmd


class Weighted:
    """Counting semaphore with weights: memory-hungry harnesses (TBMC: 8-15 GB resident) take several permits so
    that parallel runs stay within the machine's memory."""
    def __init__(self, capacity):
        import threading
        self.cap, self.used, self.cv = capacity, 0, threading.Condition()

    def acquire(self, w):
        w = min(w, self.cap)
        with self.cv:
            while self.used + w > self.cap:
                self.cv.wait()
            self.used += w
        return w

    def release(self, w):
        with self.cv:
            self.used -= w
            self.cv.notify_all()


PERMITS = None


def run_job(job, logdir):
    w = PERMITS.acquire(job.weight) if PERMITS else 0
    try:
        return run_job_inner(job, logdir)
    finally:
        if PERMITS:
            PERMITS.release(w)


def run_job_inner(job, logdir):
    slot, fd = acquire_slot("hook" if job.hook else "plain")
    try:
        out_json = os.path.join(slot, f"out-{job.mod}-{job.fn}.json")
        if os.path.exists(out_json):
            os.remove(out_json)
        log = os.path.join(logdir, f"{job.mod}-{job.fn}.log")
        if os.path.exists(log):
            os.remove(log)
        rc, timed_out, wall = run_cmd(kani_cmd(job, slot, out_json), base_env(job.hook), HARNESS, log,
                                      job.timeout, job.mem_gb)
        res = {"job": job, "rc": rc, "timed_out": timed_out, "wall": wall, "log": log, "json": None,
               "slot": slot}
        if os.path.exists(out_json):
            try:
                res["json"] = json.load(open(out_json))
            except Exception:
                pass
        return res
    finally:
        release_slot(fd)


# ------------------------------------------------------------------------------------------------
TAG_RE = re.compile(r'^"?((?:C\d\d[ ,]*)+):')


def tags_of(desc):
    m = TAG_RE.match(desc.strip())
    return re.findall(r"C\d\d", m.group(1)) if m else []


def in_repo(chk):
    f = (chk.get("location") or {}).get("file", "") or ""
    return f.startswith(REPO + "/")


def in_harness(chk):
    f = (chk.get("location") or {}).get("file", "") or ""
    return f.startswith("src/")


def classify(res, prop):
    """-> dict(relevant=[checks], inconclusive=[reasons], stats=..., checks=[...])"""
    job = res["job"]
    out = {"relevant": [], "needs_replay_only": [], "inconclusive": [], "other_failed": []}
    js = res["json"]
    if res["timed_out"]:
        out["inconclusive"].append(f"{job.full}: timeout after {job.timeout}s")
        return out
    if js is None:
        out["inconclusive"].append(f"{job.full}: no result (rc={res['rc']}; build error, OOM or solver crash; see {res['log']})")
        return out
    results = js.get("verification_results", {}).get("results", [])
    if not results:
        out["inconclusive"].append(f"{job.full}: harness did not run (see {res['log']})")
        return out
    r = results[0]
    checks = r.get("checks", [])
    out["checks"] = checks
    ncov_total = ncov_sat = 0
    n_expected_panics = 0
    n_undecided = 0
    for c in checks:
        st, cat, desc = c.get("status"), c.get("category"), c.get("description", "")
        if cat == "cover":
            # SATISFIED: witness reached. UNSATISFIABLE: the cover is reachable but never true -> vacuity.
            # UNREACHABLE: the cover sits in an operation branch this harness disables by a constant mask;
            # tolerated, but every harness must have at least one satisfied witness (checked below).
            ncov_total += 1
            if st == "Satisfied":
                ncov_sat += 1
            elif st not in ("Unreachable", "Satisfied", "Unsatisfiable"):
                n_undecided += 1
            elif st != "Unreachable" and not any(o in desc for o in job.optcov):
                out["inconclusive"].append(f"{job.full}: vacuity witness not satisfied: {desc} [{st}]")
            continue
        if st in ("Success", "Unreachable", "Satisfied", "Unsatisfiable"):
            continue
        if st != "Failure":
            n_undecided += 1
            if n_undecided <= 3:
                out["inconclusive"].append(f"{job.full}: check {c.get('id')} status {st}: {desc}")
            continue
        tg = tags_of(desc)
        if job.ignorefn and not tg and job.ignorefn in c.get("function", ""):
            out["ignored_unvalidated"] = out.get("ignored_unvalidated", 0) + 1
            continue
        if job.family == "TBMC" and not tg and not in_repo(c) and not in_harness(c) and cat != "unwind":
            # a check inside std / Kani's allocator model (e.g. __rust_dealloc) cannot be attributed to a pass: the
            # first pass of a non-last thread runs against a guess that is not yet accepted and can drive such
            # library code into nonsense. Memory safety of the library calls is decided by the sequential
            # families (SEQ/IND/ENV), not by TBMC.
            out["ignored_unvalidated"] = out.get("ignored_unvalidated", 0) + 1
            continue
        if job.expectpanic and job.expectpanic in desc and in_repo(c):
            n_expected_panics += 1
            continue
        if tg:
            (out["relevant"] if (prop in tg or prop in job.owner) else out["other_failed"]).append(c)
        elif cat == "unwind":
            if in_repo(c):
                # a loop of the crate does not terminate within the bound: progress (C09)
                (out["relevant"] if prop == "C09" else out["other_failed"]).append(c)
            else:
                out["inconclusive"].append(f"{job.full}: unwinding bound too small: {desc} at {c.get('location')}")
        elif cat == "unsupported_construct":
            out["inconclusive"].append(f"{job.full}: unsupported construct reached: {desc}")
        elif in_harness(c):
            # an untagged check in harness code (overflow in the oracle, etc.) is a harness bug
            out["inconclusive"].append(f"{job.full}: untagged harness check failed: {desc} at {c.get('location')}")
        elif job.inrepo_needs_replay:
            out["needs_replay_only"].append(c)
        else:
            out["relevant"].append(c)
    if n_undecided > 3:
        out["inconclusive"].append(f"{job.full}: {n_undecided} checks undecided (solver out of memory / error / unwinding failure; see {res['log']})")
    if job.expectpanic and n_expected_panics == 0:
        out["relevant"].append({"description": f'"{prop}: the documented panic \'{job.expectpanic}\' is not raised any more"',
                                "category": "assertion", "status": "Failure", "function": job.full,
                                "location": {"file": "src/" + job.mod + ".rs", "line": str(job.src_line), "column": "1"}})
    if ncov_sat == 0 and not job.meta.get("nocover"):
        out["inconclusive"].append(f"{job.full}: no vacuity witness satisfied ({ncov_total} cover checks)")
    if r.get("status") not in ("Success", "Failure"):
        out["inconclusive"].append(f"{job.full}: harness status {r.get('status')}")
    return out


# ------------------------------------------------------------------------------------------------
def load_kf():
    if not os.path.exists(KF_FILE):
        return {"findings": [], "fixed": []}
    return json.load(open(KF_FILE))


def kf_match(kf, prop, job, chk):
    desc = chk.get("description", "")
    loc = chk.get("location") or {}
    locs = f"{loc.get('file','')}:{loc.get('line','')}"
    fn = chk.get("function", "")
    for f in kf.get("findings", []):
        if f["property"] != prop:
            continue
        if f.get("harness") and f["harness"] != job.full:
            continue
        if f.get("check") and f["check"] not in desc:
            continue
        if f.get("location") and f["location"] not in locs:
            continue
        if f.get("function") and f["function"] not in fn:
            continue
        return f
    return None


# ------------------------------------------------------------------------------------------------
def extract_playback_tests(text):
    tests = []
    for m in re.finditer(r"Concrete playback unit test for `([^`]+)`:\s*```\n(.*?)```", text, re.S):
        body = m.group(2)
        name = re.search(r"fn (kani_concrete_playback_\w+)\(", body)
        chk = re.search(r'/// Check for `[^`]*`: "(.*)"\s*$', body, re.M)
        tests.append({"harness": m.group(1), "code": body, "name": name.group(1) if name else None,
                      "check": chk.group(1) if chk else ""})
    return tests


PROFILES = {
    "dev": {},
    "release": {"CARGO_PROFILE_DEV_OPT_LEVEL": "3", "CARGO_PROFILE_DEV_DEBUG_ASSERTIONS": "false",
                "CARGO_PROFILE_DEV_OVERFLOW_CHECKS": "false",
                "CARGO_PROFILE_TEST_OPT_LEVEL": "3", "CARGO_PROFILE_TEST_DEBUG_ASSERTIONS": "false",
                "CARGO_PROFILE_TEST_OVERFLOW_CHECKS": "false"},
}


def run_replay_dir(rdir, quiet=False):
    """Runs the replay in rdir natively (dev and release-like profiles). Returns (reproduced, detail)."""
    meta = json.load(open(os.path.join(rdir, "replay.json")))
    crate = os.path.join(rdir, "crate")
    detail = {}
    reproduced = False
    for prof, penv in PROFILES.items():
        env = base_env(meta["hook"])
        env.update(penv)
        env["CARGO_TARGET_DIR"] = os.path.join(CACHE, f"replay-tgt-{'hook' if meta['hook'] else 'plain'}-{prof}")
        env["RUST_BACKTRACE"] = "0"
        log = os.path.join(rdir, f"run-{prof}.log")
        if os.path.exists(log):
            os.remove(log)
        cmd = ["cargo", "kani", "playback", "-Z", "concrete-playback", "--", meta["test"], "--exact",
               "--nocapture"]
        # the test lives in module `mod`; --exact needs the full path
        cmd[-3] = f"{meta['mod']}::{meta['test']}"
        rc, to, wall = run_cmd(cmd, env, crate, log, 300, 16)
        text = open(log, errors="replace").read()
        if to and meta.get("property") == "C09" and "running 1 test" in text:
            # the native run does not terminate: for the progress property that IS the reproduction
            detail[prof] = {"rc": rc, "ran": True, "hung": True, "log": log}
            reproduced = True
            continue
        want = meta.get("expect_text", "")
        ran = "running 1 test" in text
        failed = ran and ("test result: FAILED" in text or rc != 0)
        # a panic inside Kani's playback runtime (it ran out of recorded values because the native run went
        # past the point where the solver's path ended) is an artefact, not a reproduction
        artefact = "concrete_playback.rs" in text and not (want and want in text)
        std_contract = "unsafe precondition(s) violated" in text
        hit = failed and bool(want) and want in text
        crashed = ran and ("SIGABRT" in text or "SIGSEGV" in text or "signal:" in text)
        detail[prof] = {"rc": rc, "ran": ran, "failed": failed, "matched_expected_text": hit,
                        "std_precondition_abort": std_contract, "crashed": crashed,
                        "playback_artefact": artefact, "log": log}
        if hit or std_contract or ((failed or crashed) and not want and not artefact):
            reproduced = True
        if not quiet:
            print(f"  replay[{prof}]: ran={ran} failed={failed} matched={hit} std_precondition_abort={std_contract} crashed={crashed}")
    return reproduced, detail


def playback_tests(res, logdir):
    """Re-runs the harness once with concrete playback; returns the generated unit tests."""
    job = res["job"]
    slot, fd = acquire_slot("hook" if job.hook else "plain")
    try:
        log = os.path.join(logdir, f"{job.mod}-{job.fn}.playback.log")
        if os.path.exists(log):
            os.remove(log)
        # with --concrete-playback kani-driver itself has to hold CBMC's whole trace (tens of GB for the TBMC
        # harnesses): a generous but finite limit, and a time cap for TBMC
        cap = 1800 if job.family == "TBMC" else job.timeout * 2 + 300
        run_cmd(kani_cmd(job, slot, None, playback=True), base_env(job.hook), HARNESS, log, cap, 44)
    finally:
        release_slot(fd)
    return extract_playback_tests(open(log, errors="replace").read()), log


def make_replay(prop, res, chk, tests, plog):
    """Stores the solver's counterexample for `chk` as a native test under /verif/replays and runs it."""
    job = res["job"]
    desc = chk.get("description", "").strip('"')
    cand = [t for t in tests if t["name"] and desc and desc in t["check"]] or [t for t in tests if t["name"]]
    if not cand and job.family == "TBMC" and tags_of(chk.get("description", "")) and in_harness(chk):
        # Kani's concrete playback is out of reach for this harness (its driver needs > 40 GB for the trace).
        # The failed assertion is an end-of-run assertion over a trace that the REAL code of every thread has
        # accepted (two passes), i.e. over a real execution by construction: reported on the solver's verdict.
        h = hashlib.sha1((job.full + desc).encode()).hexdigest()[:10]
        rdir = os.path.join(REPLAYS, f"{prop}-{job.fn}-{h}")
        os.makedirs(rdir, exist_ok=True)
        json.dump({"property": prop, "harness": job.full, "failed_check": chk,
                   "note": "no native replay: Kani's concrete playback ran out of memory/time for this trace-guess-"
                           "and-validate harness; the assertion is evaluated only after every thread's real code has "
                           "accepted the guessed trace (DESIGN.md TBMC steps 3-6), so the counterexample is a real "
                           "execution by construction. Re-run: ./check " + prop + " --only " + job.fn,
                   "playback_log": plog},
                  open(os.path.join(rdir, "NO-NATIVE-REPLAY.json"), "w"), indent=1)
        return rdir, {"dir": None, "note": "solver verdict on a validated trace; playback unavailable"}
    if not cand:
        return None, {"error": "no concrete playback test produced", "log": plog}
    t = cand[0]
    h = hashlib.sha1((job.full + t["code"]).encode()).hexdigest()[:10]
    rdir = os.path.join(REPLAYS, f"{prop}-{job.fn}-{h}")
    if os.path.exists(rdir):
        shutil.rmtree(rdir)
    crate = os.path.join(rdir, "crate")
    os.makedirs(crate)
    for item in ("Cargo.toml", "Cargo.lock", ".cargo", "src"):
        s = os.path.join(HARNESS, item)
        d = os.path.join(crate, item)
        if os.path.isdir(s):
            shutil.copytree(s, d)
        elif os.path.exists(s):
            shutil.copy(s, d)
    with open(os.path.join(crate, "src", job.mod + ".rs"), "a") as f:
        f.write("\n// ---- counterexample found by the solver (Kani concrete playback) ----\n")
        f.write(t["code"])
    tagged = bool(tags_of(chk.get("description", "")))
    meta = {"property": prop, "harness": job.full, "mod": job.mod, "test": t["name"], "hook": job.hook,
            "failed_check": chk, "expect_text": desc if tagged else "",
            "how": "cargo kani playback -Z concrete-playback (native execution of the harness against /repo "
                   "with the solver's input values; dev profile and a release-like profile)"}
    json.dump(meta, open(os.path.join(rdir, "replay.json"), "w"), indent=1)
    with open(os.path.join(rdir, "testcase.rs"), "w") as f:
        f.write(t["code"])
    with open(os.path.join(rdir, "replay.sh"), "w") as f:
        f.write(f"#!/bin/sh\n# re-runs this counterexample natively against /repo's current tree\nexec {ROOT}/check --replay {rdir}\n")
    os.chmod(os.path.join(rdir, "replay.sh"), 0o755)
    ok, detail = run_replay_dir(rdir, quiet=True)
    return (rdir if ok else None), {"dir": rdir, "detail": detail}


# ------------------------------------------------------------------------------------------------
def repo_functions(checks):
    fns = set()
    for c in checks:
        fn = c.get("function", "")
        if "orx_concurrent_iter" in fn and in_repo(c):
            fns.add(re.sub(r"\{closure[^}]*\}", "{closure}", fn))
    return sorted(fns)


def write_evidence(prop, tier, seed, level, coverage, assumptions, wall, violations):
    os.makedirs(EVID, exist_ok=True)
    ev = {"property_id": prop, "tier": tier, "seed": seed, "level": level, "coverage": coverage,
          "assumptions": assumptions, "wall_s": round(wall, 2), "violations": violations}
    tmp = os.path.join(EVID, f".{prop}.json.tmp")
    json.dump(ev, open(tmp, "w"), indent=1)
    os.replace(tmp, os.path.join(EVID, f"{prop}.json"))


def main(argv):
    ap = argparse.ArgumentParser()
    ap.add_argument("prop", nargs="?")
    ap.add_argument("--tier", default=os.environ.get("VERIF_TIER", "quick"))
    ap.add_argument("--jobs", type=int, default=int(os.environ.get("VERIF_JOBS", "8")))
    ap.add_argument("--only")
    ap.add_argument("--replay")
    ap.add_argument("--list", action="store_true")
    ap.add_argument("--warm", action="store_true", help="pre-build the harness crate in the worker slots")
    a = ap.parse_args(argv)
    seed = int(os.environ.get("VERIF_SEED", "0") or 0)

    if a.replay:
        nn = os.path.join(a.replay, "NO-NATIVE-REPLAY.json")
        if os.path.exists(nn):
            d = json.load(open(nn))
            print(d["note"])
            return 0
        ok, detail = run_replay_dir(a.replay)
        meta = json.load(open(os.path.join(a.replay, "replay.json")))
        if ok:
            print(f"VIOLATION property={meta['property']} replay={a.replay}")
            return 1
        print("counterexample does not reproduce on the current tree")
        return 0

    jobs = parse_registry()
    if a.list:
        for j in jobs:
            print(j.full, "quick=" + ",".join(j.quick), "thorough=" + ",".join(j.thorough),
                  "hook" if j.hook else "", "leak" if j.leak else "", j.bounds)
        return 0
    if a.warm:
        return warm(a.jobs)
    prop = a.prop
    if not prop:
        ap.error("property id required")
    import extra
    t0 = time.time()
    sel = [j for j in jobs if j.serves(prop, a.tier) and (not a.only or a.only in j.full)]
    extra_checks = extra.CHECKS.get(prop, []) if not a.only else []
    if not sel and not extra_checks:
        print(f"no check registered for {prop}")
        return 2
    logdir = os.path.join(CACHE, "logs", f"{prop}-{a.tier}")
    os.makedirs(logdir, exist_ok=True)
    kf = load_kf()

    global PERMITS
    PERMITS = Weighted(8)
    results = []
    with concurrent.futures.ThreadPoolExecutor(max_workers=a.jobs) as ex:
        futs = {ex.submit(run_job, j, logdir): j for j in sel}
        for fu in concurrent.futures.as_completed(futs):
            res = fu.result()
            results.append(res)
            j = res["job"]
            print(f"[{prop}] {j.full}: rc={res['rc']} wall={res['wall']:.0f}s" + (" TIMEOUT" if res["timed_out"] else ""),
                  flush=True)
    results.sort(key=lambda r: r["job"].full)

    inconclusive, violations, known_lines, harness_ev = [], [], [], []
    pending = []
    all_fns = set()
    n_checks = n_success = n_cover = n_unreach = 0
    vccs = vccs_rem = 0
    solver_s = symex_s = 0.0
    samples = []
    for res in results:
        job = res["job"]
        cl = classify(res, prop)
        inconclusive += cl["inconclusive"]
        checks = cl.get("checks", [])
        fns = repo_functions(checks)
        all_fns.update(fns)
        st = collections.Counter(c.get("status") for c in checks)
        n_checks += len(checks)
        n_success += st.get("Success", 0)
        n_cover += st.get("Satisfied", 0)
        n_unreach += st.get("Unreachable", 0)
        cb = {}
        if res["json"]:
            for e in res["json"].get("cbmc", []):
                cb = e.get("cbmc_stats", {}) or {}
        vccs += int(cb.get("vccs_generated", 0) or 0)
        vccs_rem += int(cb.get("vccs_remaining", 0) or 0)
        solver_s += float(cb.get("runtime_solver_s", 0) or 0) + float(cb.get("runtime_decision_procedure_s", 0) or 0)
        symex_s += float(cb.get("runtime_symex_s", 0) or 0)
        tagged_here = [c for c in checks if prop in tags_of(c.get("description", "")) and c.get("status") == "Success"]
        hv = {"harness": job.full, "family": job.family, "bounds": job.bounds, "unwind": job.unwind,
              "hook": job.hook, "memory_leak_check": job.leak, "wall_s": round(res["wall"], 1),
              "checks_total": len(checks), "checks_success": st.get("Success", 0),
              "checks_unreachable": st.get("Unreachable", 0), "covers_satisfied": st.get("Satisfied", 0),
              "checks_failed": st.get("Failure", 0),
              "assertions_of_this_property_discharged": len(tagged_here),
              "vccs_generated": cb.get("vccs_generated"), "vccs_after_simplification": cb.get("vccs_remaining"),
              "solver_s": cb.get("runtime_solver_s"), "symex_s": cb.get("runtime_symex_s"),
              "repo_functions_encoded": fns}
        harness_ev.append(hv)
        if tagged_here and len(samples) < 6:
            c = tagged_here[0]
            samples.append({"harness": job.full, "bounds": job.bounds, "obligation": c.get("description"),
                            "at": c.get("location"), "status": c.get("status")})
        todo = []
        seen_desc = set()
        for chk in list(cl["relevant"]) + list(cl["needs_replay_only"]):
            key = (chk.get("description"), json.dumps(chk.get("location"), sort_keys=True))
            if key in seen_desc:
                continue
            seen_desc.add(key)
            f = kf_match(kf, prop, job, chk)
            if f:
                line = f"KNOWN-FINDING: property={prop} {f['what']} [{job.full}: {chk.get('description')}]"
                if line not in known_lines:
                    known_lines.append(line)
                continue
            todo.append(chk)
        if todo:
            pending.append((res, cl, todo))

    def replay_job(item):
        res, cl, todo = item
        if res["job"].family == "TBMC":
            # Kani's own concrete playback needs tens of GB for these traces: read the values off CBMC's compact
            # text trace instead (driver/cbmc_playback.py); same unit test, same native execution afterwards
            job = res["job"]
            tests, plog = [], os.path.join(logdir, f"{job.mod}-{job.fn}.cbmc-trace.log")
            fd = os.open(os.path.join(res["slot"], ".slot.lock"), os.O_CREAT | os.O_RDWR)
            fcntl.flock(fd, fcntl.LOCK_EX)
            try:
                for chk in todo:
                    code, name = cbmc_playback.extract(res["slot"], job, res["log"], chk.get("description", ""), plog)
                    if code:
                        tests.append({"harness": job.full, "code": code, "name": name,
                                      "check": chk.get("description", "").strip('"')})
            finally:
                release_slot(fd)
        else:
            tests, plog = playback_tests(res, logdir)
        out = []
        for chk in todo:
            rdir, info = make_replay(prop, res, chk, tests, plog)
            if res["job"].family == "TBMC" and info.get("dir"):
                # independent replay with real threads under the native deterministic scheduler
                par = tbmc_params(res["job"])
                code = open(os.path.join(info["dir"], "testcase.rs")).read()
                ind = tbmc_replay.run(code, par[0], par[1], par[2], info["dir"]) if par else {"status": "unavailable"}
                info["independent"] = ind
                json.dump(ind, open(os.path.join(info["dir"], "independent-replay.json"), "w"), indent=1, default=str)
                natively_observable = prop in ("C01", "C02", "C03", "C04", "C05", "C06", "C09", "C11")
                confirmed = ind.get("status") == "confirmed" and any(prop in f for f in ind.get("findings", []))
                if rdir and natively_observable and ind.get("status") == "not-confirmed":
                    rdir = None
                    info["error"] = "the solver's schedule, executed by real threads, does not violate the property"
                elif rdir and not confirmed:
                    info["note"] = "accepted on the sequential playback only (" + str(ind.get("status")) + ")"
            out.append((chk, rdir, info))
        return res, cl, out

    with concurrent.futures.ThreadPoolExecutor(max_workers=max(1, a.jobs // 2)) as ex:
        for res, cl, out in ex.map(replay_job, pending):
            job = res["job"]
            for chk, rdir, info in out:
                if rdir:
                    violations.append((rdir, job, chk))
                elif chk in cl["needs_replay_only"]:
                    # in-code check under an unvalidated guessed trace that does not reproduce: not a finding
                    continue
                elif chk.get("category") in MEMSAFE_CATS and info.get("dir"):
                    # UB-level (no native symptom expected); decided exactly by CBMC on a sequential harness
                    json.dump({"note": "UB-level violation reported by CBMC's memory-safety checks; not observable "
                                       "natively. Triage by reading the failed check and the playback test."},
                              open(os.path.join(info["dir"], "UB-LEVEL.json"), "w"))
                    violations.append((info["dir"], job, chk))
                else:
                    inconclusive.append(f"{job.full}: counterexample for '{chk.get('description')}' did not reproduce "
                                        f"natively ({info}) - encoding suspected, fix /verif")

    # non-Kani checks (z3 encodings, MIR guards)
    extra_ev = []
    for fn in extra_checks:
        r = fn(prop, a.tier, kf)
        extra_ev.append(r["evidence"])
        inconclusive += r.get("inconclusive", [])
        known_lines += r.get("known", [])
        for v in r.get("violations", []):
            violations.append((v, None, {"description": "see replay dir"}))
        samples += r.get("samples", [])
        n_checks += r.get("obligations", 0)
        n_success += r.get("discharged", 0)
        solver_s += r.get("solver_s", 0.0)

    wall = time.time() - t0
    for l in known_lines:
        print(l)
    if not samples:
        samples = [{"harness": h["harness"], "bounds": h["bounds"]} for h in harness_ev[:3]] or [{"note": "no harness ran"}]
    coverage = {
        "evaluations": n_checks,
        "distinct_nontrivial": n_success - 0,
        "rule": "one case = one verification condition (check) generated by Kani/CBMC for a harness compiled "
                "from /repo's current tree (or one solver query of a side encoding); counted as non-trivial and "
                "distinct when CBMC reports it reachable and SUCCESS (each check has its own id/location); "
                "UNREACHABLE checks and cover witnesses are not counted",
        "samples": samples,
        "explanation": "bounded model checking: each harness is a symbolic program over the real compiled code; "
                       "the SAT solver decides all inputs within the stated bounds at once",
        "harnesses": harness_ev,
        "side_checks": extra_ev,
        "functions_encoded": sorted(all_fns),
        "queries_discharged": n_success,
        "checks_unreachable": n_unreach,
        "vacuity_witnesses_satisfied": n_cover,
        "vccs_generated": vccs, "vccs_after_simplification": vccs_rem,
        "solver_time_s": round(solver_s, 2), "symex_time_s": round(symex_s, 2),
        "known_findings_reported": known_lines,
        "inconclusive": inconclusive,
        "exhaustive": False,
    }
    assumptions = [
        "Kani 0.68 / CBMC 6.11 model of Rust and std (atomics are sequentially consistent RMWs, allocation never fails)",
        "bounds as listed per harness; behaviour outside them is not claimed",
        "cumulative requested element count below usize::MAX unless the harness says otherwise",
    ]
    write_evidence(prop, a.tier, seed, "model_checking", coverage, assumptions, wall, len(violations))
    if violations:
        for rdir, job, chk in violations:
            print(f"VIOLATION property={prop} replay={rdir}")
            print(f"  harness={job.full if job else '-'} check={chk.get('description')}")
        return 1
    if inconclusive:
        for i in inconclusive:
            print("INCONCLUSIVE:", i)
        return 2
    print(f"OK property={prop} tier={a.tier} harnesses={len(results)} checks={n_checks} discharged={n_success} wall={wall:.0f}s")
    return 0


def warm(njobs):
    """Builds the harness crate (both with and without the hook cfg) in njobs slots."""
    logdir = os.path.join(CACHE, "logs", "warm")
    os.makedirs(logdir, exist_ok=True)

    def one(kind, i):
        slot, fd = acquire_slot(kind)
        try:
            cmd = ["cargo", "kani", "--only-codegen", "-Z", "stubbing", "--target-dir", slot]
            return run_cmd(cmd, base_env(kind == "hook"), HARNESS, os.path.join(logdir, f"{kind}-{i}.log"), 1200, 16)[0]
        finally:
            release_slot(fd)
    rcs = []
    with concurrent.futures.ThreadPoolExecutor(max_workers=njobs) as ex:
        futs = [ex.submit(one, k, i) for k in ("plain", "hook") for i in range(njobs // 2 or 1)]
        rcs = [f.result() for f in futs]
    print("warm:", rcs)
    return 0 if all(r == 0 for r in rcs) else 2
