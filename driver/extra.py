"""Non-Kani side checks (z3 encodings, MIR guards), keyed by property id.

Each check is a function (prop, tier, known_findings) -> dict with keys
  evidence, inconclusive[], known[], violations[] (replay dirs), samples[], obligations, discharged, solver_s
"""
import hashlib, json, os, re, shutil, subprocess, time

ROOT = os.path.dirname(os.path.dirname(os.path.abspath(__file__)))
REPO = "/repo"
CACHE = os.path.join(ROOT, ".cache")
REPLAYS = os.path.join(ROOT, "replays")


# ------------------------------------------------------------------------------------------------
# C14 TYPE: auto-trait entailment. For every `unsafe impl Send/Sync for S<..>` of the crate:
#   declared(bounds of the impl, closed under the supertraits of the crate's traits)  ==>  required(fields of S)
# is a propositional formula over atoms Send(P), Sync(P) for the type parameters P. z3 decides
# declared AND NOT required; `sat` = a concrete assignment (e.g. Send(Iter)=false) = a client type the unsafe
# impl wrongly admits. The assignment is replayed by compiling a generated probe program.

ATOMIC_FREE = ("AtomicCounter", "AtomicBool", "AtomicUsize", "usize", "Option<usize>", "bool")


def strip_comments(src):
    src = re.sub(r"//[^\n]*", "", src)
    return re.sub(r"/\*.*?\*/", "", src, flags=re.S)


def split_top(s, sep=","):
    out, depth, cur = [], 0, ""
    for ch in s:
        if ch in "<([{":
            depth += 1
        elif ch in ">)]}":
            depth -= 1
        if ch == sep and depth == 0:
            out.append(cur)
            cur = ""
        else:
            cur += ch
    if cur.strip():
        out.append(cur)
    return [x.strip() for x in out if x.strip()]


def parse_generics(g):
    """'<'a, const N: usize, T: Send + Sync, A>' -> ({param: [bounds]}, [type params in order])"""
    params, order = {}, []
    for item in split_top(g):
        if item.startswith("'"):
            continue
        if item.startswith("const "):
            continue
        name, _, b = item.partition(":")
        name = name.strip()
        order.append(name)
        params[name] = [x.strip() for x in split_top(b, "+")] if b.strip() else []
    return params, order


def parse_where(w):
    out = {}
    for item in split_top(w):
        lhs, _, b = item.partition(":")
        lhs = lhs.strip()
        if re.fullmatch(r"\w+", lhs):
            out.setdefault(lhs, []).extend(x.strip() for x in split_top(b, "+"))
    return out


def load_crate():
    files = []
    for d, _, fs in os.walk(os.path.join(REPO, "src")):
        for f in fs:
            if f.endswith(".rs") and "tests" not in d.split(os.sep) and f != "verif_shim.rs":
                files.append(os.path.join(d, f))
    return {f: strip_comments(open(f).read()) for f in sorted(files)}


def extract(srcs):
    structs, impls, traits = {}, [], {}
    for f, s in srcs.items():
        for m in re.finditer(r"(?:pub(?:\([^)]*\))?\s+)?struct (\w+)\s*(<[^{;]*?>)?\s*(where[^{]*)?\{(.*?)\n\}", s, re.S):
            name, gen, where, body = m.group(1), m.group(2) or "<>", m.group(3) or "", m.group(4)
            params, order = parse_generics(gen[1:-1])
            for k, v in parse_where(where[5:] if where else "").items():
                params.setdefault(k, []).extend(v)
            fields = []
            for fl in split_top(body):
                fl = re.sub(r"^\s*pub(\([^)]*\))?\s+", "", fl.strip())
                if ":" in fl:
                    fn, _, ft = fl.partition(":")
                    fields.append((fn.strip(), re.sub(r"\s+", "", ft)))
            structs[name] = {"file": f, "params": params, "order": order, "fields": fields}
        for m in re.finditer(r"unsafe impl\s*(<[^{]*?>)?\s*(Send|Sync) for (\w+)\s*(<[^{]*?>)?\s*(where[^{]*)?\{", s, re.S):
            gen, tr, name, args, where = m.group(1) or "<>", m.group(2), m.group(3), m.group(4) or "<>", m.group(5) or ""
            params, order = parse_generics(gen[1:-1])
            for k, v in parse_where(where[5:] if where else "").items():
                params.setdefault(k, []).extend(v)
            targs = [a for a in split_top(args[1:-1]) if not a.startswith("'") and not (re.fullmatch(r"\w+", a) and a not in params)]
            impls.append({"file": f, "trait": tr, "struct": name, "params": params, "args": targs,
                          "line": s[:m.start()].count("\n") + 1})
        for m in re.finditer(r"pub trait (\w+)\s*(<[^{]*?>)?\s*:\s*([^{]*?)\{", s, re.S):
            sup = [x.strip() for x in split_top(m.group(3).split("where")[0], "+")]
            traits[m.group(1)] = sup
    return structs, impls, traits


def base_trait(b):
    return re.match(r"[\w:]+", b).group(0).split("::")[-1] if re.match(r"[\w:]+", b) else b


def declared_atoms(params, traits):
    """-> set of (auto, param) implied by the bounds, closing over the crate's trait supertraits."""
    out = set()
    for p, bounds in params.items():
        todo = [base_trait(b) for b in bounds]
        seen = set()
        while todo:
            b = todo.pop()
            if b in seen:
                continue
            seen.add(b)
            if b in ("Send", "Sync"):
                out.add((b, p))
            elif b == "Copy":
                pass
            todo += [base_trait(x) for x in traits.get(b, [])]
    return out


def required(ftype, auto, tparams):
    """Structural rules -> list of (auto, param) atoms required for `auto` of a field of type ftype,
    or None if the shape is not understood."""
    t = ftype
    if t in ATOMIC_FREE or t.startswith("PhantomData<"):
        return []
    m = re.fullmatch(r"&'\w+\[(\w+)\]", t) or re.fullmatch(r"&'\w+(\w+)", t)
    if m:  # shared reference: both Send and Sync of the reference need Sync of the referent
        return [("Sync", m.group(1))] if m.group(1) in tparams else []
    m = re.fullmatch(r"UnsafeCell<(?:ManuallyDrop<)?(?:Vec<(\w+)>|\[(\w+);\w+\]|(\w+))>?>", t)
    if m:
        # interior mutability reached through &self from several threads: the content is handed from
        # thread to thread (moved out / mutated by whichever thread holds the reservation) -> Send for both
        p = m.group(1) or m.group(2) or m.group(3)
        return [("Send", p)] if p in tparams else []
    m = re.fullmatch(r"\*(?:mut|const)(\w+)", t)
    if m:  # an owning raw pointer to elements: behaves like the elements themselves
        return [(auto, m.group(1))] if m.group(1) in tparams else []
    m = re.fullmatch(r"Range<(\w+)>", t)
    if m:
        return [(auto, m.group(1))] if m.group(1) in tparams else []
    if t in tparams:
        return [(auto, t)]
    return None


def smt_entailment(decl, req, params):
    """z3: is there an assignment with all `decl` atoms true and some `req` atom false?"""
    atoms = sorted({f"{a}_{p}" for a, p in decl | set(req)} | {f"{a}_{p}" for p in params for a in ("Send", "Sync")})
    lines = ["(set-logic ALL)"] + [f"(declare-const {a} Bool)" for a in atoms]
    for a, p in sorted(decl):
        lines.append(f"(assert {a}_{p})")
    if req:
        lines.append("(assert (not (and " + " ".join(f"{a}_{p}" for a, p in req) + " true)))")
    else:
        lines.append("(assert false)")
    script = "\n".join(lines + ["(check-sat)"]) + "\n"
    t0 = time.time()
    res = {}
    for solver in (["/usr/bin/z3", "-in"], ["cvc5", "--lang", "smt2"]):
        try:
            r = subprocess.run(solver, input=script, capture_output=True, text=True, timeout=60)
            out = r.stdout + r.stderr
        except Exception as e:  # noqa
            out = f"(error {e})"
        res[solver[0]] = out
    verdicts = {k: (v.strip().splitlines() or ["?"])[0] for k, v in res.items()}
    err = any("(error" in v or "rror" in v for v in res.values()) or len(set(verdicts.values())) != 1
    z = ""
    if verdicts["/usr/bin/z3"] == "sat":
        z = subprocess.run(["/usr/bin/z3", "-in"], input=script + "(get-model)\n", capture_output=True, text=True, timeout=60).stdout
    dt = time.time() - t0
    model = {}
    if verdicts["/usr/bin/z3"] == "sat":
        for m in re.finditer(r"\(define-fun (\w+) \(\) Bool\s+(true|false)\)", z):
            model[m.group(1)] = m.group(2) == "true"
    return verdicts["/usr/bin/z3"], model, err, dt, script


PROBE_ITER = '''// generated by /verif/driver/extra.py: a client program that the crate must REJECT if its unsafe Send/Sync
// impls are sound: it shares a concurrent iterator over a wrapped iterator that is not Send (captures an Rc).
use orx_concurrent_iter::*;
use std::rc::Rc;
fn main() {
    let shared = Rc::new(7usize);
    let not_send_iter = (0..4usize).map(move |x| x + *shared);
    let con_iter = not_send_iter.into_con_iter();
    std::thread::scope(|s| {
        s.spawn(|| { let _ = con_iter.next(); });
        s.spawn(|| { let _ = con_iter.next(); });
    });
}
'''
TWIN_ITER = '''// thread-safe twin: must compile
use orx_concurrent_iter::*;
use std::sync::Arc;
fn main() {
    let shared = Arc::new(7usize);
    let iter = (0..4usize).map(move |x| x + *shared);
    let con_iter = iter.into_con_iter();
    std::thread::scope(|s| {
        s.spawn(|| { let _ = con_iter.next(); });
        s.spawn(|| { let _ = con_iter.next(); });
    });
}
'''


def generic_probe(im, st, model, src):
    """A program `assert_<trait>::<Struct<args>>()` with every type parameter that the counterexample makes
    non-Send an `Rc<usize>` (non-Sync only: `Cell<usize>`). None if the struct has other bounds."""
    m = re.search(r"struct " + im["struct"] + r"\s*(<[^{;]*?>)?\s*(where[^{]*)?\{", src, re.S)
    if not m:
        return None
    gen = (m.group(1) or "<>")[1:-1]
    args = []
    for item in split_top(gen):
        if item.startswith("'"):
            args.append("'static")
        elif item.startswith("const "):
            args.append("1")
        else:
            name, _, b = item.partition(":")
            name = name.strip()
            bounds = [base_trait(x) for x in split_top(b, "+")] if b.strip() else []
            bounds += [base_trait(x) for x in st["params"].get(name, [])]
            if any(x not in ("Send", "Sync", "Clone", "Copy", "") for x in bounds):
                return None
            if model.get(f"Send_{name}", True) is False:
                args.append("std::rc::Rc<usize>")
            elif model.get(f"Sync_{name}", True) is False:
                args.append("std::cell::Cell<usize>")
            else:
                args.append("usize")
    ty = f"orx_concurrent_iter::{im['struct']}<{', '.join(args)}>" if args else f"orx_concurrent_iter::{im['struct']}"
    tr = im["trait"]
    return (f"// generated by /verif/driver/extra.py: must NOT compile if the crate's unsafe impl {tr} is sound\n"
            f"fn assert_auto<X: {tr}>() {{}}\nfn main() {{\n    assert_auto::<{ty}>();\n}}\n")


def compile_probe(name, code):
    d = os.path.join(CACHE, "c14-probe")
    os.makedirs(os.path.join(d, "src", "bin"), exist_ok=True)
    open(os.path.join(d, "Cargo.toml"), "w").write(
        '[package]\nname = "c14-probe"\nversion = "0.0.0"\nedition = "2021"\n[dependencies]\n'
        'orx-concurrent-iter = { path = "/repo" }\n[workspace]\n')
    shutil.copy(os.path.join(REPO, "Cargo.lock"), os.path.join(d, "Cargo.lock"))
    for f in os.listdir(os.path.join(d, "src", "bin")):
        os.remove(os.path.join(d, "src", "bin", f))
    open(os.path.join(d, "src", "bin", name + ".rs"), "w").write(code)
    env = dict(os.environ)
    env["CARGO_NET_OFFLINE"] = "true"
    env.pop("RUSTFLAGS", None)
    r = subprocess.run(["cargo", "check", "--offline", "--bin", name], cwd=d, env=env, capture_output=True, text=True)
    return r.returncode == 0, (r.stderr or "")[-1500:]


def c14_type(prop, tier, kf):
    t0 = time.time()
    srcs = load_crate()
    structs, impls, traits = extract(srcs)
    ev = {"check": "TYPE: auto-trait entailment of every unsafe Send/Sync impl (z3, cross-checked with cvc5)",
          "structs_parsed": sorted(structs), "unsafe_impls": [], "traits_with_supertraits": traits}
    res = {"evidence": ev, "inconclusive": [], "known": [], "violations": [], "samples": [], "obligations": 0,
           "discharged": 0, "solver_s": 0.0}
    if not impls:
        res["inconclusive"].append("C14/TYPE: no unsafe impl Send/Sync found in /repo/src (parser out of date?)")
    for im in impls:
        st = structs.get(im["struct"])
        tag = f"{im['trait']} for {im['struct']} ({os.path.relpath(im['file'], REPO)}:{im['line']})"
        if st is None:
            res["inconclusive"].append(f"C14/TYPE: struct {im['struct']} not found for unsafe impl {tag}")
            continue
        # map struct params to impl args (positional)
        ren = dict(zip(st["order"], im["args"]))
        tparams = set(im["params"])
        req, unknown = [], []
        for fname, ftype in st["fields"]:
            ft = ftype
            for a, b in ren.items():
                ft = re.sub(rf"\b{a}\b", b, ft)
            r = required(ft, im["trait"], tparams)
            if r is None:
                unknown.append(f"{fname}: {ftype}")
            else:
                req += r
        if unknown:
            res["inconclusive"].append(f"C14/TYPE: field shapes not covered by the rules in {tag}: {unknown}")
            continue
        decl = declared_atoms(im["params"], traits)
        verdict, model, err, dt, script = smt_entailment(decl, req, tparams)
        res["solver_s"] += dt
        res["obligations"] += 1
        entry = {"impl": tag, "declared": sorted(f"{a}({p})" for a, p in decl),
                 "required": sorted(set(f"{a}({p})" for a, p in req)), "z3": verdict}
        ev["unsafe_impls"].append(entry)
        if err:
            res["inconclusive"].append(f"C14/TYPE: solver error or z3/cvc5 disagreement on {tag}")
            continue
        if verdict == "unsat":
            res["discharged"] += 1
            if len(res["samples"]) < 3:
                res["samples"].append({"obligation": tag, "declared": entry["declared"], "required": entry["required"],
                                       "verdict": "declared => required (unsat of the negation)"})
            continue
        missing = sorted(k for k, v in model.items() if not v and tuple(k.split("_", 1)) in set(req))
        entry["counterexample"] = {k: v for k, v in model.items()}
        what = f"unsafe impl {tag} admits a type parameter with {missing} false although its fields require it"
        # known finding?
        kfm = None
        for f in kf.get("findings", []):
            if f["property"] == prop and f.get("impl") and f["impl"] in tag and all(m in missing for m in f.get("missing", [])):
                kfm = f
        if kfm:
            res["known"].append(f"KNOWN-FINDING: property={prop} {kfm['what']} [{tag}: missing {missing}]")
            continue
        # replay: the wrongly admitted client program must be accepted by the compiler to count
        rdir = os.path.join(REPLAYS, f"{prop}-type-{hashlib.sha1(tag.encode()).hexdigest()[:10]}")
        os.makedirs(rdir, exist_ok=True)
        open(os.path.join(rdir, "query.smt2"), "w").write(script)
        json.dump({"property": prop, "impl": tag, "counterexample": model, "missing": missing, "what": what},
                  open(os.path.join(rdir, "replay.json"), "w"), indent=1)
        confirmed = False
        if im["struct"] != "ConIterOfIter":
            # generic replay: instantiate the struct with a non-thread-safe parameter and ask the compiler
            # whether it has the auto trait (it must NOT, so a program that compiles confirms the finding)
            probe = generic_probe(im, st, model, srcs[st["file"]])
            if probe is None:
                res["inconclusive"].append(f"C14/TYPE: {what}; no client program could be generated to replay it")
                continue
            ok_bad, log_bad = compile_probe("probe_auto_trait", probe)
            open(os.path.join(rdir, "probe_auto_trait.rs"), "w").write(probe)
            open(os.path.join(rdir, "compile.log"), "w").write(f"probe compiles (= the type wrongly has the auto trait): {ok_bad}\n{log_bad}")
            confirmed = ok_bad
        if im["struct"] == "ConIterOfIter":
            ok_bad, log_bad = compile_probe("probe_not_send", PROBE_ITER)
            ok_twin, log_twin = compile_probe("probe_twin", TWIN_ITER)
            open(os.path.join(rdir, "probe_not_send.rs"), "w").write(PROBE_ITER)
            open(os.path.join(rdir, "compile.log"), "w").write(f"not-send probe compiles: {ok_bad}\n{log_bad}\n\ntwin compiles: {ok_twin}\n{log_twin}")
            confirmed = ok_bad and ok_twin
        if confirmed:
            res["violations"].append(rdir)
        else:
            res["inconclusive"].append(f"C14/TYPE: {what}, but the generated client program is rejected by the compiler")
    ev["wall_s"] = round(time.time() - t0, 2)
    return res


CHECKS = {"C14": [c14_type]}
