"""Non-Kani side checks (z3 encodings, MIR guards), keyed by property id."""
CHECKS = {}
