"""Concrete playback without kani-driver: for harnesses whose CBMC trace is too large for Kani's
`--concrete-playback` (its driver holds the whole JSON trace in memory), CBMC is run directly on the goto binary
Kani produced, with `--trace --compact-trace --property <failed property>`, and the values returned by
`kani::any_raw_internal` are read off the text trace in order. The result is the same unit test Kani would
print (`kani::concrete_playback_run(values, harness)`), to be executed natively with `cargo kani playback`."""
import glob, os, re, subprocess

CBMC_FLAGS = ["--no-malloc-may-fail", "--no-undefined-shift-check", "--no-signed-overflow-check", "--nan-check",
              "--no-self-loops-to-assumptions", "--no-pointer-primitive-check", "--object-bits", "16",
              "--sat-solver", "cadical"]


def property_name(kani_log, description):
    """CBMC property name of the failed check with this description, from Kani's regular output."""
    text = open(kani_log, errors="replace").read()
    want = description.strip()
    for m in re.finditer(r"Check \d+: (\S+)\n\s*- Status: FAILURE\n\s*- Description: (.*)\n", text):
        if m.group(2).strip() == want or m.group(2).strip().strip('"') == want.strip('"'):
            return m.group(1)
    return None


def goto_binary(slot, fn):
    cands = [p for p in glob.glob(os.path.join(slot, "kani", "**", "out", f"*{fn}.out"), recursive=True)
             if not p.endswith(".symtab.out")]
    # the mangled name ends with <len><fn>: avoid matching a longer function name
    cands = [p for p in cands if re.search(r"\d+" + re.escape(fn) + r"\.out$", p)]
    return max(cands, key=os.path.getmtime) if cands else None


def extract(slot, job, kani_log, description, out_log, timeout=3000):
    """-> (test code, test name) or (None, reason)"""
    prop = property_name(kani_log, description)
    if not prop:
        return None, "property name not found in the Kani log"
    binf = goto_binary(slot, job.fn)
    if not binf:
        return None, "goto binary not found"
    cmd = ["cbmc"] + CBMC_FLAGS + ["--unwind", str(job.unwind or 1), binf, "--trace", "--compact-trace",
                                   "--property", prop]
    vals = []
    # scalars come from kani::any_raw_internal::<T>, arrays element by element from kani::any_raw_array::<T, N>
    # (the mangled names contain `<len>kani<len>any_raw_internal` / `<len>kani<len>any_raw_array`)
    pat = re.compile(r"goto_symex\$\$return_value\$\$\S*4kani1[36]any_raw_(?:internal|array)\S*=.*\(([01 ]+)\)\s*$")
    try:
        with open(out_log, "w") as lf:
            p = subprocess.Popen(cmd, stdout=subprocess.PIPE, stderr=subprocess.STDOUT, text=True, errors="replace")
            import time
            t0 = time.time()
            violated = False
            for line in p.stdout:
                m = pat.search(line)
                if m:
                    bits = m.group(1).replace(" ", "")
                    by = [int(bits[i:i + 8], 2) for i in range(0, len(bits), 8)]
                    vals.append(list(reversed(by)))
                    lf.write(line)
                elif "Violated property" in line or "VERIFICATION" in line or "rror" in line:
                    lf.write(line)
                    if "Violated property" in line:
                        violated = True
                if time.time() - t0 > timeout:
                    p.kill()
                    return None, "timeout while CBMC produced the trace"
            p.wait()
    except Exception as e:  # noqa
        return None, f"cbmc run failed: {e}"
    if not violated:
        return None, "CBMC did not report the property as violated"
    name = f"kani_concrete_playback_{job.fn}_direct"
    body = "".join(f"        vec![{', '.join(map(str, v))}],\n" for v in vals)
    code = (f"/// Test generated from CBMC's compact trace for harness `{job.full}`\n///\n"
            f"/// Check for `assertion`: \"{description}\"\n\n#[test]\nfn {name}() {{\n"
            f"    let concrete_vals: Vec<Vec<u8>> = vec![\n{body}    ];\n"
            f"    kani::concrete_playback_run(concrete_vals, {job.fn});\n}}\n")
    return code, name
